#!/bin/bash
# Entry point of every registered check.
#   ./run.sh setup                 build the harness offline
#   ./run.sh Cxx quick|thorough    rebuild against /repo's current tree and run one check
#   ./run.sh replay <file>         re-run the case recorded in a replay file
set -u
cd "$(dirname "$0")"
export VERIF_ROOT="$PWD"
export GOFLAGS=-mod=mod GOPROXY=off GOSUMDB=off GOTOOLCHAIN=local
export GOCACHE="${GOCACHE:-$HOME/.cache/go-build}"

build() { # $1 = extra flag (e.g. -race), $2 = output
  (cd harness && go build -tags verif $1 -o "$2" ./cmd/vcheck) || { echo "BUILD FAILED"; exit 3; }
}

case "${1:-}" in
  setup)
    build "" bin/vcheck
    build "-race" bin/vcheck-race
    echo "setup ok"
    ;;
  replay)
    build "" bin/vcheck
    exec harness/bin/vcheck replay "$2"
    ;;
  C14)
    build "-race" bin/vcheck-race
    exec harness/bin/vcheck-race C14 "${2:-${VERIF_TIER:-quick}}"
    ;;
  C[0-9][0-9])
    build "" bin/vcheck
    exec harness/bin/vcheck "$1" "${2:-${VERIF_TIER:-quick}}"
    ;;
  *)
    echo "usage: $0 setup | Cxx quick|thorough | replay <file>"; exit 2;;
esac
