#!/bin/bash
# Entry point of every registered check.
#   ./run.sh setup                 build the harness offline
#   ./run.sh Cxx quick|thorough    rebuild against /repo's current tree and run one check
#   ./run.sh replay <file>         re-run the case recorded in a replay file
# Environment: VERIF_SEED, VERIF_TIER as in MANIFEST.json.
# For the mutant self-test only: VERIF_REPO=<scratch copy of the repository> builds against that copy
# (separate binary) and VERIF_OUT=<dir> redirects work/evidence/replay output; registered checks use neither.
set -u
cd "$(dirname "$0")"
export VERIF_ROOT="$PWD"
export GOFLAGS=-mod=mod GOPROXY=off GOSUMDB=off GOTOOLCHAIN=local
export GOCACHE="${GOCACHE:-$HOME/.cache/go-build}"

BIN=bin/vcheck
MODFLAG=""
if [ -n "${VERIF_REPO:-}" ] && [ "$VERIF_REPO" != "/repo" ]; then
  tag=$(echo "$VERIF_REPO" | cksum | cut -d' ' -f1)
  BIN="bin/vcheck-alt-$tag"
  mkdir -p "harness/bin"
  sed "s#=> /repo#=> $VERIF_REPO#" harness/go.mod > "harness/bin/alt-$tag.mod"
  cp harness/go.sum "harness/bin/alt-$tag.sum"
  MODFLAG="-modfile=bin/alt-$tag.mod"
fi

build() { # $1 = extra flag (e.g. -race), $2 = output
  (cd harness && go build $MODFLAG -tags verif $1 -o "$2" ./cmd/vcheck) || { echo "BUILD FAILED"; exit 3; }
}

case "${1:-}" in
  setup)
    build "" bin/vcheck
    build "-race" bin/vcheck-race
    echo "setup ok"
    ;;
  replay)
    build "" $BIN
    exec harness/$BIN replay "$2"
    ;;
  C14)
    build "-race" $BIN-race
    exec harness/$BIN-race C14 "${2:-${VERIF_TIER:-quick}}"
    ;;
  C[0-9][0-9])
    build "" $BIN
    exec harness/$BIN "$1" "${2:-${VERIF_TIER:-quick}}"
    ;;
  *)
    echo "usage: $0 setup | Cxx quick|thorough | replay <file>"; exit 2;;
esac
