module verifharness

go 1.21

require (
	github.com/anishathalye/porcupine v1.3.0
	github.com/opsidian/parsley v0.0.0
)

replace github.com/opsidian/parsley => /repo
