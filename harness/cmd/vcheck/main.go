// vcheck is the single binary behind every registered check.
//
//	vcheck <Cxx> [quick|thorough]      driver (VERIF_SEED, VERIF_TIER honoured)
//	vcheck worker <Cxx> <tier> <seed> <widx> <nw> <outdir>
//	vcheck replay <file>
package main

import (
	"encoding/json"
	"fmt"
	"os"
	"strconv"

	_ "verifharness/internal/checks"
	"verifharness/internal/run"
)

func main() {
	if len(os.Args) < 2 {
		fmt.Println("usage: vcheck <Cxx> [quick|thorough] | worker ... | replay <file> | list")
		os.Exit(2)
	}
	switch os.Args[1] {
	case "list":
		for _, id := range run.IDs() {
			fmt.Println(id, run.Lookup(id).Title)
		}
	case "plan": // vcheck plan <Cxx> <tier> <seed>: prints the job list (used to build replay files by hand)
		c := run.Lookup(os.Args[2])
		seed, _ := strconv.ParseInt(os.Args[4], 10, 64)
		for i, j := range c.Plan(os.Args[3], seed) {
			b, _ := json.Marshal(j)
			fmt.Printf("%d %s\n", i, b)
		}
	case "worker":
		if len(os.Args) != 8 {
			fmt.Println("bad worker invocation")
			os.Exit(3)
		}
		c := run.Lookup(os.Args[2])
		if c == nil {
			fmt.Println("unknown check", os.Args[2])
			os.Exit(3)
		}
		seed, _ := strconv.ParseInt(os.Args[4], 10, 64)
		widx, _ := strconv.Atoi(os.Args[5])
		nw, _ := strconv.Atoi(os.Args[6])
		os.Exit(run.Worker(c, os.Args[3], seed, widx, nw, os.Args[7]))
	case "replay":
		if len(os.Args) != 3 {
			fmt.Println("usage: vcheck replay <file>")
			os.Exit(2)
		}
		os.Exit(run.Replay(os.Args[2]))
	default:
		c := run.Lookup(os.Args[1])
		if c == nil {
			fmt.Println("unknown check", os.Args[1])
			os.Exit(2)
		}
		tier := os.Getenv("VERIF_TIER")
		if len(os.Args) > 2 {
			tier = os.Args[2]
		}
		if tier != "thorough" {
			tier = "quick"
		}
		seed := int64(1)
		if s := os.Getenv("VERIF_SEED"); s != "" {
			if n, err := strconv.ParseInt(s, 10, 64); err == nil {
				seed = n
			}
		}
		os.Exit(run.Drive(c, tier, seed))
	}
}
