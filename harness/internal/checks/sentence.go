package checks

import (
	"fmt"
	"strconv"

	"github.com/opsidian/parsley/ast"
	"github.com/opsidian/parsley/ast/interpreter"
	"github.com/opsidian/parsley/combinator"
	"github.com/opsidian/parsley/data"
	"github.com/opsidian/parsley/parser"
	"github.com/opsidian/parsley/parsley"

	"verifharness/internal/gram"
	"verifharness/internal/run"
)

// attempt is one logged try of a terminal, of End, or of a named alternative
type attempt struct {
	Pos      int    `json:"pos"`
	What     string `json:"expectation"`
	OK       bool   `json:"matched"`
	Terminal bool   `json:"terminal"`
	// Failed: no node AND an error came back. A terminal, End or a named Any/Choice that does not
	// match always fails with an error; a named sequence that consists of curtailed left-recursive
	// calls only returns neither a node nor an error, which is not a failed expectation.
	Failed bool `json:"failed"`
}

type sentenceOpts struct {
	Named    bool // every Any/Choice gets a Name
	NameSeqs bool // sequences get a Name as well
	// NameOptionals: Name() directly on some Optionals. NOTE: on the unchanged tree this changes what the grammar accepts
	// (ReturnError drops a result whenever an error accompanies it, so a named Optional fails when its operand fails);
	// only C06 uses it - its oracle judges error positions from the attempt log and does not depend on the language
	NameOptionals bool
	ExplicitEnd   bool // harness-built SeqOf(root, End).Bind(Select(0)) with a probe around End instead of combinator.Sentence
	NoMemo        bool
	NoSentence    bool // the nonterminal itself is the root
	Evaluate      bool
	Before        []int // lengths of files placed before the parsed file
	// Prescan: the same context first runs a parse of the bare nonterminal (no Sentence: it succeeds on any matching
	// prefix, the way a loader scans a file for include statements), then the parse that is judged. The second parse is
	// served from the context's result cache; what the first one learned about failures must not get lost
	Prescan bool
	// Transform: the context has transformation switched on (the harness interpreters are no transformers: the tree
	// comes back as it is, through the library's default child-by-child pass)
	Transform bool
	// SharedSet: the file joins this file set, which already holds the inputs parsed (and the errors rendered) before
	SharedSet *parsley.FileSet
}

type sentenceResult struct {
	Env   *gram.Env
	Guard *gram.Guard
	Log   []attempt
	// LogTruncated: the attempt log reached its cap; the furthest failure can no longer be computed from it
	LogTruncated bool
	// CtxErrWentBack: online monotonicity monitor - the context's furthest error position decreased during the parse
	CtxErrWentBack string
	ctxErrPos      int
	RootEnds       map[int]bool // ends of the alternatives the root returned at offset 0
	Node           parsley.Node
	Value          interface{}
	Err            error
	Budget         string
	Bound          *gram.BoundViolation
	Panic          string
}

// concatInterp evaluates every child and concatenates what it gets; bound to every sequence node
func concatInterp() parsley.Interpreter {
	// Parse trees of memoized grammars are DAGs (shared sub-trees): a naive recursive evaluation can take
	// exponentially many steps. The interpreter gives up with an ordinary evaluation error after a step budget -
	// "a value or an error" is all C04 asks of Evaluate.
	steps := 0
	return ast.InterpreterFunc(func(userCtx interface{}, node parsley.NonTerminalNode) (interface{}, parsley.Error) {
		steps++
		if steps > 200000 {
			return nil, parsley.NewErrorf(node.Pos(), "evaluation step budget of the harness interpreter exhausted")
		}
		out := ""
		for _, c := range node.Children() {
			if _, ok := c.(ast.EmptyNode); ok {
				continue
			}
			v, err := parsley.EvaluateNode(userCtx, c)
			if err != nil {
				return nil, err
			}
			switch x := v.(type) {
			case rune:
				out += string(x)
			case string:
				out += x
			case nil:
			default:
				out += fmt.Sprint(x)
			}
		}
		return out, nil
	})
}

func runSentence(c GCase, o sentenceOpts) *sentenceResult {
	res := &sentenceResult{RootEnds: map[int]bool{}}
	env := gram.NewEnvAt(c.In, o.Before)
	if o.SharedSet != nil {
		env = gram.NewEnvIn(o.SharedSet, c.In)
	}
	res.Env = env
	gd := gram.NewGuard(env.Base)
	gd.MaxEvents, gd.MaxCalls = 100000, 150000
	res.Guard = gd
	h := &gram.Hooks{Budget: gd.LeafTick, Inside: gd.Inside, Outside: gd.Outside, NoMemo: o.NoMemo, Interp: concatInterp(), ShareLeaves: true,
		// grammars with trimming wrappers (judged on acceptance and errors, not on the tree's node types): a quarter with
		// hand-written terminals that return a node type of the user's own
		UserLeaves: c.G.HasExtendedOps() && run.Hash(c.G.String())%4 == 2}
	if h.UserLeaves && run.Hash(c.G.String())%8 == 2 {
		// ... half of these with a non-comparable value node (only where no RightTrim has to move a node's end)
		hasRTrim := false
		for _, b := range c.G.NTs {
			gram.Walk(b, func(e *gram.Expr) {
				if e.Op == gram.OpRTrim {
					hasRTrim = true
				}
			})
		}
		h.UserValueLeaves = !hasRTrim
	}
	if !o.NoMemo {
		h.MemoExpr = c.MemoExpr
	}
	if o.Named {
		h.NameOf = func(e *gram.Expr) string {
			switch e.Op {
			case gram.OpAny:
				if e.ID%3 == 0 {
					return fmt.Sprintf("any%d (a %%-encoded byte, 100%%s)", e.ID) // names are free text
				}
				return fmt.Sprintf("any%d", e.ID)
			case gram.OpChoice:
				return fmt.Sprintf("choice%d", e.ID)
			}
			if o.NameSeqs && gram.IsSeqLike(e.Op) {
				return fmt.Sprintf("seq%d", e.ID)
			}
			if o.NameOptionals && e.Op == gram.OpOpt && e.ID%2 == 0 {
				return fmt.Sprintf("opt%d", e.ID) // Name() directly on an Optional (a parser that returns a result together with an error)
			}
			return ""
		}
	}
	h.Around = func(e *gram.Expr, p parsley.Parser) parsley.Parser {
		what := ""
		term := false
		switch {
		case e.Op == gram.OpRune:
			what = "was expecting " + strconv.Quote(string(rune(e.C)))
			term = true
		case e.Op == gram.OpEnd: // End() used inside the grammar is a terminal expectation like any other
			what = "was expecting the end of input"
			term = true
		case h.NameOf != nil && h.NameOf(e) != "":
			what = "was expecting " + h.NameOf(e)
		default:
			return p
		}
		return parser.Func(func(ctx *parsley.Context, lrc data.IntMap, pos parsley.Pos) (parsley.Node, data.IntSet, parsley.Error) {
			gd.Tick(ctx)
			n, cp, err := p.Parse(ctx, lrc, pos)
			// the furthest recorded error never moves backwards (checked at every probe event)
			if ce := ctx.Error(); ce != nil {
				if int(ce.Pos()) < res.ctxErrPos && res.CtxErrWentBack == "" {
					res.CtxErrWentBack = fmt.Sprintf("context error moved from offset %d back to %d (%q) after %s at offset %d", res.ctxErrPos-env.Base, int(ce.Pos())-env.Base, ce.Error(), what, int(pos)-env.Base)
				}
				res.ctxErrPos = int(ce.Pos())
			}
			if len(res.Log) < 20000 {
				res.Log = append(res.Log, attempt{int(pos) - env.Base, what, n != nil, term, n == nil && err != nil})
			} else {
				res.LogTruncated = true
			}
			return n, cp, err
		})
	}
	b := gram.Build(c.G, h)
	rootProbe := parser.Func(func(ctx *parsley.Context, lrc data.IntMap, pos parsley.Pos) (parsley.Node, data.IntSet, parsley.Error) {
		n, cp, err := b.NTs[c.NT].Parse(ctx, lrc, pos)
		if int(pos) == env.Base {
			for _, alt := range gram.Alternatives(n) {
				res.RootEnds[int(alt.ReaderPos())-env.Base] = true
			}
		}
		return n, cp, err
	})
	var root parsley.Parser
	switch {
	case o.NoSentence:
		root = rootProbe
	case o.ExplicitEnd:
		end := parser.End()
		endProbe := parser.Func(func(ctx *parsley.Context, lrc data.IntMap, pos parsley.Pos) (parsley.Node, data.IntSet, parsley.Error) {
			n, cp, err := end.Parse(ctx, lrc, pos)
			res.Log = append(res.Log, attempt{int(pos) - env.Base, "was expecting the end of input", n != nil, true, n == nil})
			return n, cp, err
		})
		root = combinator.SeqOf(rootProbe, endProbe).Bind(interpreter.Select(0))
	default:
		root = combinator.Sentence(rootProbe)
	}
	func() {
		defer func() {
			if r := recover(); r != nil {
				switch v := r.(type) {
				case gram.BoundViolation:
					res.Bound = &v
				case gram.BudgetExceeded:
					res.Budget = v.What
				default:
					res.Panic = fmt.Sprint(r)
				}
			}
		}()
		if o.Prescan {
			parsley.Parse(env.Ctx, rootProbe)
		}
		if o.Transform {
			env.Ctx.EnableTransformation()
		}
		if o.Evaluate {
			res.Value, res.Err = parsley.Evaluate(env.Ctx, root)
		} else {
			res.Node, res.Err = parsley.Parse(env.Ctx, root)
		}
	}()
	if !o.NoSentence && !o.ExplicitEnd && res.Panic == "" && res.Budget == "" && res.Bound == nil {
		// combinator.Sentence tries End at the end of every alternative the root returned (until one is at EOF)
		for e := range res.RootEnds {
			res.Log = append(res.Log, attempt{e, "was expecting the end of input", e == len(c.In), true, e != len(c.In)})
		}
	}
	return res
}

// lineCol is an independent line/column counter (1-based, byte columns)
func lineCol(in string, off int) (int, int) {
	line, col := 1, 1
	for i := 0; i < off && i < len(in); i++ {
		if in[i] == '\n' {
			line++
			col = 1
		} else {
			col++
		}
	}
	return line, col
}

// offsetOf inverts lineCol: the offset denoted by line:col, or -1
func offsetOf(in string, line, col int) int {
	for off := 0; off <= len(in); off++ {
		l, c := lineCol(in, off)
		if l == line && c == col {
			return off
		}
	}
	return -1
}
