package checks

import (
	"fmt"
	"github.com/opsidian/parsley/combinator"
	"github.com/opsidian/parsley/parser"
	"math/rand"
	"sort"

	"verifharness/internal/gram"
	"verifharness/internal/run"
)

// GCase is one grammar-level case: parse nonterminal NT of G at offset Pos of In.
type GCase struct {
	G   *gram.Grammar
	In  string
	NT  int
	Pos int
	Fam string
	// MemoExpr: sub-expressions additionally wrapped in Memoize (nil: none). Memoize is supposed to be
	// transparent wherever it is put, so the properties must hold with extra memoization as well.
	MemoExpr map[int]bool
}

// Before: lengths of the files that precede the parsed file in its file set (a function of the case:
// a third of the cases are parsed as a later file of a set, the library must not care)
func (c GCase) Before() []int {
	h := run.Hash(c.G.String() + "|" + c.In)
	if h%29 == 1 {
		// one case in 29 lies beyond a large file: global positions around and beyond 2^16, 2^20, 2^24, 2^31, 2^32, 2^40
		return []int{int(h>>16) % 7, gram.BigOffsets[int(h>>8)%len(gram.BigOffsets)]}[int(h>>24)%2:]
	}
	if h%3 != 0 {
		return nil
	}
	return []int{int(h>>8) % 19, int(h>>16) % 7}[:1+int(h>>24)%2]
}

func (c GCase) memoIDs() []int {
	var ids []int
	for id := range c.MemoExpr {
		ids = append(ids, id)
	}
	sort.Ints(ids)
	return ids
}

func (c GCase) Key() string {
	return fmt.Sprintf("%s|%q|N%d@%d|%v", c.G.String(), c.In, c.NT, c.Pos, c.memoIDs())
}

func (c GCase) Describe() map[string]any {
	d := map[string]any{"grammar": c.G.String(), "input": c.In, "entry": fmt.Sprintf("N%d", c.NT), "offset": c.Pos, "family": c.Fam}
	if len(c.MemoExpr) > 0 {
		d["extra_memoized_expression_ids"] = c.memoIDs()
	}
	return d
}

// gramCases enumerates the cases of a job. The list is a pure function of the job.
//
//	random   : Seed, N grammars x P[inputs] inputs; P[strat]=1 steers towards stratified grammars, P[maxlen], P[lrfree]
//	mutual   : Seed, N mutual-left-recursion-biased grammars x P[inputs] inputs sampled from the grammar
//	enum     : every body with P[nodes] nodes, shapes [Lo,Hi), x every input over {a,b} up to P[maxlen]; P[ext]=1 adds Choice/Many/SeqTry
//	corpus   : the seed corpus
//
// burnParserIndices: Memoize takes its cache key from a process-wide counter. A long-running process (a service that
// builds a grammar per request) reaches indices no short test run ever sees: jobs with P["burn"] construct that many
// throw-away memoized parsers first, so that their grammars are built late in the life of the process.
func burnParserIndices(n int) {
	for i := 0; i < n; i++ {
		combinator.Memoize(parser.Empty())
	}
}

func gramCases(j run.Job, yield func(c GCase)) {
	if n := j.Param("burn", 0); n > 0 {
		burnParserIndices(n)
	}
	switch j.Family {
	case "random":
		r := rand.New(rand.NewSource(j.Seed))
		maxLen := j.Param("maxlen", 8)
		inputs := j.Param("inputs", 6)
		for gi := 0; gi < j.N; gi++ {
			o := gram.GenOpts{Stratified: j.Param("strat", 1) == 1, LRFree: j.Param("lrfree", 0) == 1, Trims: j.Param("trims", 0) == 1}
			if o.Trims {
				o.Alpha = "ab \n"
				o.LeftTrims = j.Param("lefttrims", 0) == 1
				o.RTrimSeqs = j.Param("rtrimseqs", 0) == 1
				o.RTrimFresh = j.Param("rtrimfresh", 0) == 1
			}
			o.Ends = j.Param("ends", 0) == 1
			if j.Param("nl", 0) == 1 && r.Intn(2) == 0 {
				o.Alpha = "ab\n"
			}
			if j.Param("pct", 0) == 1 && r.Intn(3) == 0 {
				o.Alpha = "a%\n" // a terminal whose text means something to a formatter
			}
			g := gram.Random(r, o)
			fam := "random"
			if o.Trims {
				fam = "random+trims"
			}
			if j.Param("suppress", 0) == 1 && g.SuppressSome(r.Intn) > 0 {
				fam += "+suppress"
			}
			// only recursive nonterminals have to be memoized: leave some of the others plain
			rec := g.RecursiveNTs()
			for i := range g.NTs {
				if !rec[i] && r.Intn(2) == 0 {
					g.Memo[i] = false
				}
			}
			// extra Memoize wrappers around arbitrary sub-expressions in a quarter of the grammars
			var memoExpr map[int]bool
			if j.Param("memoexpr", 1) == 1 && r.Intn(4) == 0 {
				memoExpr = map[int]bool{}
				for _, b := range g.NTs {
					gram.Walk(b, func(e *gram.Expr) {
						if e.Op != gram.OpNT && r.Intn(3) == 0 {
							memoExpr[e.ID] = true
						}
					})
				}
				fam = "random+memo"
			}
			for ii := 0; ii < inputs; ii++ {
				nt := r.Intn(len(g.NTs))
				in := g.RandomInput(r, nt, maxLen, 50)
				pos := 0
				if len(in) > 0 && r.Intn(4) == 0 {
					pos = r.Intn(len(in) + 1)
				}
				yield(GCase{G: g, In: in, NT: nt, Pos: pos, Fam: fam, MemoExpr: memoExpr})
			}
		}
	case "mutual":
		r := rand.New(rand.NewSource(j.Seed))
		inputs := j.Param("inputs", 6)
		maxLen := j.Param("maxlen", 10)
		for gi := 0; gi < j.N; gi++ {
			g := gram.MutualLR(r)
			fam := "mutual-lr"
			if j.Param("suppress", 0) == 1 && g.SuppressSome(r.Intn) > 0 {
				fam = "mutual-lr+suppress" // left-recursive references that run through SuppressError
			}
			for ii := 0; ii < inputs; ii++ {
				nt := r.Intn(len(g.NTs))
				bias := 85
				if ii == inputs-1 {
					bias = 0
				}
				in := g.RandomInput(r, nt, maxLen, bias)
				yield(GCase{G: g, In: in, NT: nt, Fam: fam})
			}
		}
	case "hidden":
		r := rand.New(rand.NewSource(j.Seed))
		inputs := j.Param("inputs", 6)
		maxLen := j.Param("maxlen", 9)
		for gi := 0; gi < j.N; gi++ {
			g := gram.HiddenLRWith(r, j.Param("marks", 0) == 1)
			fam := "hidden-lr"
			if j.Param("suppress", 0) == 1 && g.SuppressSome(r.Intn) > 0 {
				fam = "hidden-lr+suppress"
			}
			for ii := 0; ii < inputs; ii++ {
				nt := r.Intn(len(g.NTs))
				bias := 85
				if ii == inputs-1 {
					bias = 0
				}
				in := g.RandomInput(r, nt, maxLen, bias)
				yield(GCase{G: g, In: in, NT: nt, Fam: fam})
			}
		}
	case "userlist":
		// M (N1): a memoized nonterminal with three or more results at one position - built by a hand-written combinator
		// with append, its list has spare capacity. X (N2) -> M | other, memoized too: its cached list starts out as M's.
		// S (N0) -> X t | M? t | X t ... : consumers that EXTEND M's result at one position, while X's result is kept.
		r := rand.New(rand.NewSource(j.Seed))
		for gi := 0; gi < j.N; gi++ {
			g := gram.New("abcd", 3)
			x := g.Alpha[r.Intn(2)]
			var alts []*gram.Expr
			for k, n := 0, 3+r.Intn(3); k < n; k++ {
				var rs []*gram.Expr
				for q := 0; q <= k; q++ {
					rs = append(rs, g.Rune(x))
				}
				if k == 0 {
					alts = append(alts, rs[0])
				} else {
					alts = append(alts, g.Mk(gram.OpSeqOf, rs...))
				}
			}
			r.Shuffle(len(alts), func(a, b int) { alts[a], alts[b] = alts[b], alts[a] })
			g.NTs[1] = g.Mk(gram.OpAny, alts...)
			other := []*gram.Expr{g.Mk(gram.OpSeqOf, g.Rune(x), g.Rune(x), g.Rune(x)), g.Rune(g.Alpha[r.Intn(4)]), g.Mk(gram.OpSeqOf, g.Rune(x), g.Rune('c'))}[r.Intn(3)]
			g.NTs[2] = g.Mk(gram.OpAny, g.Ref(1), other)
			ext := func() *gram.Expr {
				switch r.Intn(4) {
				case 0:
					return g.Mk(gram.OpOpt, g.Ref(1))
				case 1:
					return g.Mk(gram.OpAny, g.Ref(1), g.Mk(gram.OpEmpty))
				default:
					return g.Ref(2)
				}
			}
			var top []*gram.Expr
			for k, n := 0, 3+r.Intn(3); k < n; k++ {
				top = append(top, g.Mk(gram.OpSeqOf, ext(), g.Rune("bcd"[r.Intn(3)])))
			}
			g.NTs[0] = g.Mk(gram.OpAny, top...)
			for ii := 0; ii < j.Param("inputs", 6); ii++ {
				in := g.RandomInput(r, 0, 8, 85)
				yield(GCase{G: g, In: in, NT: 0, Fam: "userlist"})
			}
		}
	case "strings":
		r := rand.New(rand.NewSource(j.Seed))
		for gi := 0; gi < j.N; gi++ {
			g := gram.StrGrammar(r)
			for ii := 0; ii < j.Param("inputs", 6); ii++ {
				bias := 90
				if ii == j.Param("inputs", 6)-1 {
					bias = 0
				}
				nt := r.Intn(2)
				in := g.RandomInput(r, nt, 24, bias)
				yield(GCase{G: g, In: in, NT: nt, Fam: "strings"})
			}
		}
	case "typed":
		// token-level grammars over the library's typed terminals (integer, float, bool, nil, char, duration, word,
		// regexp), every token trimmed one way or another; P[refonly]=1: only shapes the reference semantics models
		r := rand.New(rand.NewSource(j.Seed))
		for gi := 0; gi < j.N; gi++ {
			g := gram.TypedGrammar(r, j.Param("refonly", 1) == 1, j.Param("trims", 1) == 1)
			for ii := 0; ii < j.Param("inputs", 6); ii++ {
				bias := 92
				if ii == j.Param("inputs", 6)-1 {
					bias = 0
				}
				in := g.RandomInput(r, 0, 30, bias)
				if bias > 0 && r.Intn(2) == 0 && j.Param("trims", 1) == 1 {
					in += []string{" ", "\n", " \n ", "\t"}[r.Intn(4)] // whitespace after the last token, in front of the end of input
				}
				yield(GCase{G: g, In: in, NT: 0, Fam: "typed"})
			}
		}
	case "trimseq":
		r := rand.New(rand.NewSource(j.Seed))
		inputs := j.Param("inputs", 6)
		for gi := 0; gi < j.N; gi++ {
			g := gram.TrimSeq(r)
			for ii := 0; ii < inputs; ii++ {
				bias := 85
				if ii == inputs-1 {
					bias = 0
				}
				in := g.RandomInput(r, 0, 10, bias)
				yield(GCase{G: g, In: in, NT: 0, Fam: "trimseq"})
			}
		}
	case "layered":
		r := rand.New(rand.NewSource(j.Seed))
		inputs := j.Param("inputs", 6)
		for gi := 0; gi < j.N; gi++ {
			g := gram.LayeredLR(r)
			for ii := 0; ii < inputs; ii++ {
				nt := 1 + r.Intn(len(g.NTs)-1)
				in := g.RandomInput(r, nt, 8, 80)
				yield(GCase{G: g, In: in, NT: nt, Fam: "layered-lr"})
			}
		}
	case "enum":
		nodes := j.Param("nodes", 3)
		shapes := gram.Shapes(nodes, j.Param("ext", 0) == 1)
		inputs := gram.AllInputs("ab", j.Param("maxlen", 4))
		hi := j.Hi
		if hi > len(shapes) || hi == 0 {
			hi = len(shapes)
		}
		fam := "enum"
		if j.Param("ext", 0) == 1 {
			fam = "enum-ext"
		}
		for si := j.Lo; si < hi; si++ {
			g := gram.New("ab", 1)
			g.NTs[0] = shapes[si](g)
			if !g.RepetitionOK() {
				continue
			}
			for _, in := range inputs {
				yield(GCase{G: g, In: in, NT: 0, Fam: fam})
			}
		}
	case "enum2":
		// every pair of bodies with <= P[nodes] nodes each (N0 = shapes[i], N1 = shapes[k]), i in [Lo,Hi), x every input up to P[maxlen]
		shapes := gram.Shapes2(j.Param("nodes", 3))
		inputs := gram.AllInputs("ab", j.Param("maxlen", 3))
		hi := j.Hi
		if hi > len(shapes) || hi == 0 {
			hi = len(shapes)
		}
		for i := j.Lo; i < hi; i++ {
			for k := range shapes {
				g := gram.New("ab", 2)
				g.NTs[0] = shapes[i](g)
				g.NTs[1] = shapes[k](g)
				uses1 := false
				gram.Walk(g.NTs[0], func(e *gram.Expr) {
					if e.Op == gram.OpNT && e.NT == 1 {
						uses1 = true
					}
				})
				if !uses1 {
					continue // N1 unreachable: covered by the single-nonterminal scope
				}
				for _, in := range inputs {
					yield(GCase{G: g, In: in, NT: 0, Fam: "enum-2nt"})
				}
			}
		}
	case "sharing":
		r := rand.New(rand.NewSource(j.Seed))
		for gi := 0; gi < j.N; gi++ {
			g := gram.Sharing(r, gram.SharingOpts{Trims: j.Param("trims", 0) == 1})
			l := r.Intn(4)
			bs := make([]byte, l)
			for i := range bs {
				bs[i] = g.Alpha[r.Intn(len(g.Alpha))]
			}
			yield(GCase{G: g, In: string(bs), NT: 0, Fam: "sharing"})
		}
	case "long":
		// seed corpus grammars with LONG inputs (the random families stop at ~10 bytes): inputs are sampled from the grammar
		r := rand.New(rand.NewSource(j.Seed))
		corpus := gram.SeedCorpus()
		for it := 0; it < j.N; it++ {
			s := corpus[r.Intn(len(corpus))]
			if s.Name == "S->SS|a|eps" || s.Name == "ambiguous S->SbS|a" || s.Name == "N->(NN)?" {
				continue // explosively ambiguous on long inputs
			}
			nt := r.Intn(len(s.G.NTs))
			var out []byte
			maxLen := 20 + r.Intn(50)
			for tries := 0; tries < 30; tries++ {
				out = out[:0]
				if s.G.Sample(r, s.G.NTs[nt], -40, &out, maxLen) && len(out) >= 12 {
					break
				}
			}
			in := string(out)
			if r.Intn(4) == 0 && len(in) > 0 {
				b := []byte(in)
				b[r.Intn(len(b))] = s.G.Alpha[r.Intn(len(s.G.Alpha))]
				in = string(b)
			}
			yield(GCase{G: s.G, In: in, NT: nt, Fam: "long:" + s.Name})
		}
	case "corpus":
		for _, s := range gram.SeedCorpus() {
			for _, in := range s.Inputs {
				for nt := range s.G.NTs {
					yield(GCase{G: s.G, In: in, NT: nt, Fam: "corpus:" + s.Name})
				}
			}
		}
	}
}

// enum2Jobs shards the two-nonterminal small scope
func enum2Jobs(nodes, maxLen, shard int) []run.Job {
	var jobs []run.Job
	total := len(gram.Shapes2(nodes))
	for lo := 0; lo < total; lo += shard {
		hi := lo + shard
		if hi > total {
			hi = total
		}
		jobs = append(jobs, run.Job{Family: "enum2", Lo: lo, Hi: hi, P: map[string]int{"nodes": nodes, "maxlen": maxLen}})
	}
	return jobs
}

// enumJobs shards the small-scope enumeration
func enumJobs(maxNodes int, ext bool, maxLen int, shard int) []run.Job {
	var jobs []run.Job
	e := 0
	if ext {
		e = 1
	}
	for n := 1; n <= maxNodes; n++ {
		total := len(gram.Shapes(n, ext))
		for lo := 0; lo < total; lo += shard {
			hi := lo + shard
			if hi > total {
				hi = total
			}
			jobs = append(jobs, run.Job{Family: "enum", Lo: lo, Hi: hi, P: map[string]int{"nodes": n, "ext": e, "maxlen": maxLen}})
		}
	}
	return jobs
}
