package checks

import (
	"fmt"
	"math/rand"
	"sort"
	"strings"

	"github.com/opsidian/parsley/data"
	"github.com/opsidian/parsley/parser"
	"github.com/opsidian/parsley/parsley"

	"verifharness/internal/gram"

	"verifharness/internal/run"
)

// C15: IntSet / IntMap are persistent. Model-based history checker: every
// value ever produced is re-read after every further operation.

type c15set struct {
	v    data.IntSet
	want []int // sorted, unique
	how  string
}

type c15map struct {
	v    data.IntMap
	want map[int]int
	how  string
}

type c15pool struct {
	sets []c15set
	maps []c15map
	hist []string
	// a caller-owned buffer that grows by appending (spare capacity) and is handed to NewIntSet with buf...:
	// the sets made from its earlier, shorter states must not change
	buf      []int
	bufModel []int
}

func newC15Pool() *c15pool {
	// the zero values of the two types are values like any other (the library's own tests declare `var ctx data.IntMap`
	// and pass it to parsers): they are the empty set and the empty map
	return &c15pool{
		sets: []c15set{{data.EmptyIntSet, nil, "EmptyIntSet"}, {data.IntSet{}, nil, "IntSet{} (zero value)"}},
		maps: []c15map{{data.EmptyIntMap, map[int]int{}, "EmptyIntMap"}, {data.IntMap{}, map[int]int{}, "IntMap{} (zero value)"}},
	}
}

func c15norm(xs []int) []int {
	m := map[int]bool{}
	for _, x := range xs {
		m[x] = true
	}
	out := make([]int, 0, len(m))
	for k := range m {
		out = append(out, k)
	}
	sort.Ints(out)
	return out
}

type c15op struct {
	kind int // 0 NewIntSet 1 Insert 2 Union 3 Inc 4 Filter 5 NewIntMap
	i, j int
	x    int
	vals []int
	kv   [][2]int
}

func (o c15op) String() string {
	switch o.kind {
	case 0:
		return fmt.Sprintf("NewIntSet(%v)", o.vals)
	case 1:
		return fmt.Sprintf("s%d.Insert(%d)", o.i, o.x)
	case 2:
		return fmt.Sprintf("s%d.Union(s%d)", o.i, o.j)
	case 3:
		return fmt.Sprintf("m%d.Inc(%d)", o.i, o.x)
	case 4:
		return fmt.Sprintf("m%d.Filter(s%d)", o.i, o.j)
	case 6:
		return fmt.Sprintf("buf = append(buf, %d); NewIntSet(buf...)", o.x)
	default:
		return fmt.Sprintf("NewIntMap(%v)", o.kv)
	}
}

// tryApply applies o and reports a panic of the library as a string ("" = none)
func (p *c15pool) tryApply(o c15op) (pan string) {
	defer func() {
		if e := recover(); e != nil {
			pan = fmt.Sprint(e)
		}
	}()
	p.apply(o)
	return ""
}

func (p *c15pool) apply(o c15op) {
	p.hist = append(p.hist, o.String())
	switch o.kind {
	case 0:
		p.sets = append(p.sets, c15set{data.NewIntSet(o.vals...), c15norm(o.vals), o.String()})
	case 1:
		w := c15norm(append(append([]int{}, p.sets[o.i].want...), o.x))
		p.sets = append(p.sets, c15set{p.sets[o.i].v.Insert(o.x), w, o.String()})
	case 2:
		w := c15norm(append(append([]int{}, p.sets[o.i].want...), p.sets[o.j].want...))
		p.sets = append(p.sets, c15set{p.sets[o.i].v.Union(p.sets[o.j].v), w, o.String()})
	case 3:
		w := map[int]int{}
		for k, v := range p.maps[o.i].want {
			w[k] = v
		}
		w[o.x]++
		p.maps = append(p.maps, c15map{p.maps[o.i].v.Inc(o.x), w, o.String()})
	case 4:
		w := map[int]int{}
		for _, k := range p.sets[o.j].want {
			if v, ok := p.maps[o.i].want[k]; ok {
				w[k] = v
			}
		}
		p.maps = append(p.maps, c15map{p.maps[o.i].v.Filter(p.sets[o.j].v), w, o.String()})
	case 6:
		if p.buf == nil {
			p.buf = make([]int, 0, 64)
		}
		if len(p.buf) == cap(p.buf) {
			p.buf, p.bufModel = p.buf[:0], nil
		}
		p.buf = append(p.buf, o.x)
		p.bufModel = append(p.bufModel, o.x)
		p.sets = append(p.sets, c15set{data.NewIntSet(p.buf...), c15norm(p.bufModel), o.String()})
	case 5:
		w := map[int]int{}
		arg := map[int]int{}
		for _, kv := range o.kv {
			w[kv[0]] = kv[1]
			arg[kv[0]] = kv[1]
		}
		p.maps = append(p.maps, c15map{data.NewIntMap(arg), w, o.String()})
	}
}

// verify re-reads every value in the pool; returns a description of the first disagreement
func (p *c15pool) verify() (string, string) {
	for i, s := range p.sets {
		var got []int
		s.v.Each(func(v int) { got = append(got, v) })
		ok := len(got) == len(s.want) && s.v.Len() == len(s.want)
		if ok {
			for k := range got {
				if got[k] != s.want[k] {
					ok = false
				}
			}
		}
		if !ok {
			kind := "set-value-changed"
			if i == len(p.sets)-1 {
				kind = "set-wrong-result"
			}
			return kind, fmt.Sprintf("set s%d (%s) reads %v (Len %d), model says %v", i, s.how, got, s.v.Len(), s.want)
		}
	}
	for i, m := range p.maps {
		keys := m.v.Keys()
		sort.Ints(keys)
		ok := len(keys) == len(m.want)
		for idx, k := range keys {
			if idx > 0 && keys[idx-1] == k {
				ok = false
			}
			if w, has := m.want[k]; !has || w != m.v.Get(k) {
				ok = false
			}
		}
		n := 0
		m.v.Each(func(k, v int) {
			n++
			if w, has := m.want[k]; !has || w != v {
				ok = false
			}
		})
		if n != len(m.want) {
			ok = false
		}
		// Get of an absent key is zero
		for k := -4; k <= 9; k++ {
			if _, has := m.want[k]; !has && m.v.Get(k) != 0 {
				ok = false
			}
		}
		if !ok {
			kind := "map-value-changed"
			if i == len(p.maps)-1 {
				kind = "map-wrong-result"
			}
			return kind, fmt.Sprintf("map m%d (%s) has keys %v, model says %v", i, m.how, keys, m.want)
		}
	}
	return "", ""
}

// enumOps lists every operation applicable to the pool over the domain {0..dom-1}
func (p *c15pool) enumOps(dom, maxList int) []c15op {
	var ops []c15op
	// NewIntSet with every list up to maxList
	var lists [][]int
	lists = append(lists, nil)
	cur := [][]int{nil}
	for l := 1; l <= maxList; l++ {
		var nx [][]int
		for _, c := range cur {
			for x := 0; x < dom; x++ {
				nx = append(nx, append(append([]int{}, c...), x))
			}
		}
		lists = append(lists, nx...)
		cur = nx
	}
	for _, l := range lists {
		ops = append(ops, c15op{kind: 0, vals: l})
	}
	for i := range p.sets {
		for x := 0; x < dom; x++ {
			ops = append(ops, c15op{kind: 1, i: i, x: x})
		}
		for j := range p.sets {
			ops = append(ops, c15op{kind: 2, i: i, j: j})
		}
	}
	for i := range p.maps {
		for x := 0; x < dom; x++ {
			ops = append(ops, c15op{kind: 3, i: i, x: x})
		}
		for j := range p.sets {
			ops = append(ops, c15op{kind: 4, i: i, j: j})
		}
	}
	for x := 0; x < dom; x++ {
		ops = append(ops, c15op{kind: 6, x: dom - 1 - x}) // descending arrivals: a later, smaller value has to be sorted in front
	}
	ops = append(ops, c15op{kind: 5}, c15op{kind: 5, kv: [][2]int{{0, 1}}}, c15op{kind: 5, kv: [][2]int{{1, 2}, {2, 0}}}, c15op{kind: 5, kv: [][2]int{{0, -1}, {1, -2}}})
	return ops
}

func c15sharing(o c15op, p *c15pool) bool {
	switch o.kind {
	case 1, 2:
		return len(p.sets[o.i].want) > 0
	case 3, 4:
		return len(p.maps[o.i].want) > 0
	}
	return false
}

// c15val draws from a domain that includes negative numbers and, rarely, extreme values
func c15val(r *rand.Rand, dom int) int {
	if r.Intn(40) == 0 {
		return []int{-1 << 62, 1<<62 - 1, -1000000, 1000000}[r.Intn(4)]
	}
	return r.Intn(dom) - dom/3
}

func c15randOp(r *rand.Rand, p *c15pool, dom int) c15op {
	switch r.Intn(9) {
	case 8:
		return c15op{kind: 6, x: c15val(r, dom)}
	case 0:
		n := r.Intn(6)
		if dom >= 20 {
			n = r.Intn(30)
		}
		var vals []int
		for i := 0; i < n; i++ {
			vals = append(vals, c15val(r, dom))
		}
		return c15op{kind: 0, vals: vals}
	case 1, 2:
		return c15op{kind: 1, i: r.Intn(len(p.sets)), x: c15val(r, dom)}
	case 3:
		return c15op{kind: 2, i: r.Intn(len(p.sets)), j: r.Intn(len(p.sets))}
	case 4, 5:
		return c15op{kind: 3, i: r.Intn(len(p.maps)), x: c15val(r, dom)}
	case 6:
		return c15op{kind: 4, i: r.Intn(len(p.maps)), j: r.Intn(len(p.sets))}
	default:
		var kv [][2]int
		seen := map[int]bool{}
		for i, n := 0, r.Intn(4); i < n; i++ {
			k := c15val(r, dom)
			if !seen[k] {
				seen[k] = true
				kv = append(kv, [2]int{k, r.Intn(8) - 3}) // zero and negative counts are legal stored values
			}
		}
		return c15op{kind: 5, kv: kv}
	}
}

func c15exec(j run.Job, a *run.Acc) {
	switch j.Family {
	case "in-situ":
		c15inSitu(j, a)
	case "random":
		r := rand.New(rand.NewSource(j.Seed))
		for it := 0; it < j.N; it++ {
			dom := 3 + r.Intn(6)
			if r.Intn(5) == 0 {
				dom = 20 + r.Intn(40) // large sets from time to time (code paths that depend on the sizes of the operands)
			}
			steps := 4 + r.Intn(16)
			if !a.Begin() {
				// consume the same random numbers
				p := newC15Pool()
				for s := 0; s < steps; s++ {
					p.apply(c15randOp(r, p, dom))
				}
				continue
			}
			p := newC15Pool()
			shared := 0
			for s := 0; s < steps; s++ {
				o := c15randOp(r, p, dom)
				if c15sharing(o, p) {
					shared++
				}
				if pan := p.tryApply(o); pan != "" {
					a.Violate("panic", "panic", map[string]any{"history": append([]string{}, p.hist...), "panic": pan})
					break
				}
				a.Count("operations", 1)
				a.Count("values_reread", int64(len(p.sets)+len(p.maps)))
				if kind, msg := p.verify(); kind != "" {
					a.Violate(kind, kind, map[string]any{"history": append([]string{}, p.hist...), "observed": msg})
					break
				}
			}
			if shared > 0 {
				a.NonTrivial(strings.Join(p.hist, ";"))
				a.Sample("random-history", strings.Join(p.hist, "; "))
			}
		}
	case "scale":
		c15scale(j, a)
	case "exhaustive":
		// all operation sequences of length depth whose first operation has index in [Lo,Hi)
		depth := j.Param("depth", 3)
		dom := j.Param("dom", 3)
		maxList := j.Param("maxlist", 3)
		var rec func(p *c15pool, d int, shared int)
		rec = func(p *c15pool, d int, shared int) {
			if d == depth {
				return
			}
			ops := p.enumOps(dom, maxList)
			for idx, o := range ops {
				if d == 0 && (idx < j.Lo || idx >= j.Hi) {
					continue
				}
				ns, nm, nh := len(p.sets), len(p.maps), len(p.hist)
				sh := shared
				if c15sharing(o, p) {
					sh++
				}
				run := a.Begin()
				if pan := p.tryApply(o); pan != "" {
					if run {
						a.Violate("panic", "panic", map[string]any{"history": append([]string{}, p.hist...), "panic": pan})
					}
					p.sets, p.maps, p.hist = p.sets[:ns], p.maps[:nm], p.hist[:nh]
					continue
				}
				if run {
					a.Count("operations", 1)
					a.Count("values_reread", int64(len(p.sets)+len(p.maps)))
					if kind, msg := p.verify(); kind != "" {
						a.Violate(kind, kind, map[string]any{"history": append([]string{}, p.hist...), "observed": msg})
						// repair the model so that deeper sequences are still explored
					} else if sh > 0 {
						a.NonTrivial(strings.Join(p.hist, ";"))
						if d == depth-1 {
							a.Sample("exhaustive-history", strings.Join(p.hist, "; "))
						}
					}
				}
				if a.Only < 0 || true {
					rec(p, d+1, sh)
				}
				p.sets, p.maps, p.hist = p.sets[:ns], p.maps[:nm], p.hist[:nh]
			}
		}
		rec(newC15Pool(), 0, 0)
	}
}

// c15scale: histories whose values are LARGE (sets of hundreds to thousands of members, maps with hundreds of keys,
// counters beyond 8, 16 and 32 bits, members beyond 32 bits) or LONG (hundreds of operations on one lineage): sizes at
// which an implementation may switch representation, algorithm or growth strategy. Same oracle as the other families;
// the pool is re-read at checkpoints and at the end (every value ever produced, not only the last one).
func c15scale(j run.Job, a *run.Acc) {
	r := rand.New(rand.NewSource(j.Seed))
	for it := 0; it < j.N; it++ {
		mode := it % 4
		caseSeed := r.Int63()
		if !a.Begin() {
			continue
		}
		cr := rand.New(rand.NewSource(caseSeed))
		p := newC15Pool()
		check := func(at string) bool {
			a.Count("values_reread", int64(len(p.sets)+len(p.maps)))
			if kind, msg := p.verify(); kind != "" {
				h := p.hist
				if len(h) > 40 {
					h = append([]string{fmt.Sprintf("... %d earlier operations (replay with the case seed)", len(h)-40)}, h[len(h)-40:]...)
				}
				a.Violate(kind, kind, map[string]any{"family": "scale", "mode": mode, "case_seed": caseSeed, "checkpoint": at, "last_operations": h, "observed": msg})
				return false
			}
			return true
		}
		big := func(dom int) int {
			switch cr.Intn(30) {
			case 0:
				return 1<<31 + cr.Intn(5) - 2
			case 1:
				return 1<<32 + cr.Intn(5) - 2
			case 2:
				return -(1 << 31) - cr.Intn(3)
			case 3:
				return 1<<16 + cr.Intn(5) - 2
			}
			return cr.Intn(dom) - dom/4
		}
		ok := true
		switch mode {
		case 0: // big sets: wide NewIntSet lists, long Insert chains on one lineage, unions of big operands
			dom := []int{300, 1000, 5000, 70000}[cr.Intn(4)]
			steps := 60 + cr.Intn(140)
			cur := 0
			for s := 0; s < steps && ok; s++ {
				switch cr.Intn(8) {
				case 0:
					n := cr.Intn(400)
					vals := make([]int, n)
					for k := range vals {
						vals[k] = big(dom)
					}
					p.apply(c15op{kind: 0, vals: vals})
					cur = len(p.sets) - 1
				case 1, 2, 3:
					// keep extending the newest member of one lineage: its ancestors must all stay what they were
					p.apply(c15op{kind: 1, i: cur, x: big(dom)})
					cur = len(p.sets) - 1
				case 4:
					p.apply(c15op{kind: 2, i: cr.Intn(len(p.sets)), j: cr.Intn(len(p.sets))})
					if cr.Intn(2) == 0 {
						cur = len(p.sets) - 1
					}
				case 5:
					p.apply(c15op{kind: 1, i: cr.Intn(len(p.sets)), x: big(dom)})
				case 6, 7:
					// siblings: two or three values beyond the current extremes inserted into the SAME parent (the order in
					// which parser indices arrive in practice: ascending); the parent and each sibling must stay apart
					par := cur
					w := p.sets[par].want
					lo, hi := 0, 0
					if len(w) > 0 {
						lo, hi = w[0], w[len(w)-1]
					}
					for k, n := 0, 2+cr.Intn(2); k < n; k++ {
						x := hi + 1 + cr.Intn(3) + k
						if cr.Intn(4) == 0 {
							x = lo - 1 - cr.Intn(3) - k
						}
						p.apply(c15op{kind: 1, i: par, x: x})
						if cr.Intn(2) == 0 { // a grandchild in between: the sibling's spare capacity, if it has any, is used
							p.apply(c15op{kind: 1, i: len(p.sets) - 1, x: x + 7})
						}
					}
					if cr.Intn(2) == 0 {
						cur = len(p.sets) - 1
					}
				}
				a.Count("operations", 1)
				a.SetMax("scale: members of one set", int64(len(p.sets[len(p.sets)-1].want)))
				if s%16 == 15 {
					ok = check(fmt.Sprintf("after %d operations", s+1))
				}
			}
		case 1: // counters: one map incremented thousands of times on few keys (8/16-bit wrap), old states kept
			keys := []int{big(50), big(50), big(50)}
			n := []int{300, 700, 70000}[cr.Intn(3)]
			if j.Param("small", 0) == 1 && n > 700 {
				n = 700
			}
			cur := 0
			for s := 0; s < n && ok; s++ {
				k := keys[0]
				if cr.Intn(8) == 0 {
					k = keys[1+cr.Intn(2)]
				}
				p.apply(c15op{kind: 3, i: cur, x: k})
				// keep the boundary states and a thin sample of the others, forget the rest (memory)
				last := len(p.maps) - 1
				c := p.maps[last].want[keys[0]]
				keep := c == 127 || c == 128 || c == 255 || c == 256 || c == 257 || c == 32767 || c == 32768 || c == 65535 || c == 65536 || c == 65537 || s%997 == 0 || s == n-1
				cur = last
				if !keep && last >= 2 {
					// drop the predecessor from the pool but keep extending the newest value
					p.maps[last-1] = p.maps[last]
					p.maps = p.maps[:last]
					cur = last - 1
				}
				if len(p.hist) > 64 {
					p.hist = append([]string{fmt.Sprintf("(%d increments so far)", s+1)}, p.hist[len(p.hist)-8:]...)
				}
				a.Count("operations", 1)
				a.SetMax("scale: counter value", int64(c))
				if keep {
					ok = check(fmt.Sprintf("after %d increments", s+1))
				}
			}
		case 2: // many keys: maps with hundreds of keys, filtered by sets larger and smaller than the map
			dom := []int{100, 600, 3000}[cr.Intn(3)]
			nk := 20 + cr.Intn(dom)
			if nk > 900 {
				nk = 900
			}
			var kv [][2]int
			seen := map[int]bool{}
			for len(kv) < nk/2 {
				k := big(dom)
				if !seen[k] {
					seen[k] = true
					kv = append(kv, [2]int{k, cr.Intn(300) - 20})
				}
			}
			p.apply(c15op{kind: 5, kv: kv})
			cur := len(p.maps) - 1
			for s := 0; s < nk/2; s++ { // the other half arrives through Inc (the map grows key by key)
				p.apply(c15op{kind: 3, i: cur, x: big(dom)})
				last := len(p.maps) - 1
				if s%37 != 0 {
					p.maps[last-1] = p.maps[last]
					p.maps = p.maps[:last]
					last--
				}
				cur = last
				a.Count("operations", 1)
			}
			p.hist = append(p.hist[:1:1], fmt.Sprintf("(%d Inc operations, %d states kept)", nk/2, len(p.maps)-2))
			ok = check("after growing the map")
			for s := 0; s < 24 && ok; s++ {
				n := []int{0, 1, 3, 30, 300, 2000}[cr.Intn(6)]
				vals := make([]int, n)
				for k := range vals {
					vals[k] = big(dom)
				}
				p.apply(c15op{kind: 0, vals: vals})
				p.apply(c15op{kind: 4, i: cr.Intn(len(p.maps)), j: len(p.sets) - 1})
				if cr.Intn(3) == 0 {
					p.apply(c15op{kind: 3, i: len(p.maps) - 1, x: big(dom)})
				}
				a.Count("operations", 3)
				a.SetMax("scale: keys of one map", int64(len(p.maps[cur].want)))
				ok = check(fmt.Sprintf("after filter %d", s+1))
			}
		case 3: // the caller-owned buffer grows past its capacity several times while sets made from it are held
			p.buf = make([]int, 0, 4)
			n := 40 + cr.Intn(400)
			for s := 0; s < n && ok; s++ {
				x := big(500)
				if len(p.buf) == cap(p.buf) { // grow by reallocation like a caller's append would (pool.apply would reset it)
					nb := make([]int, len(p.buf), 2*cap(p.buf))
					copy(nb, p.buf)
					p.buf = nb
				}
				p.apply(c15op{kind: 6, x: x})
				if cr.Intn(4) == 0 {
					p.apply(c15op{kind: 2, i: len(p.sets) - 1, j: cr.Intn(len(p.sets))})
				}
				a.Count("operations", 1)
				if s%32 == 31 {
					ok = check(fmt.Sprintf("after %d appends", s+1))
				}
			}
		}
		if ok {
			ok = check("end of history")
		}
		if ok {
			a.NonTrivial(fmt.Sprintf("scale:%d:%d", mode, caseSeed))
			a.Count(fmt.Sprintf("scale histories, mode %d", mode), 1)
		}
	}
}

// c15inSitu: the sets and maps the PARSER itself produces (curtailing-parser sets, left-recursion contexts) are held
// by probes while real left-recursive grammars are parsed and are re-read at the end of the parse: a persistent value
// must still read the same, whatever the library did with it in between (cached it, united it, filtered by it).
func c15inSitu(j run.Job, a *run.Acc) {
	sub := run.Job{Family: j.S, Seed: j.Seed, N: j.N, P: j.P}
	gramCases(sub, func(c GCase) {
		if !a.Begin() {
			return
		}
		env := gram.NewEnvAt(c.In, c.Before())
		gd := gram.NewGuard(env.Base)
		gd.MaxEvents, gd.MaxCalls, gd.NoAssert = 40000, 60000, true
		type heldSet struct {
			v    data.IntSet
			want []int
			by   string
		}
		type heldMap struct {
			v    data.IntMap
			want map[int]int
			by   string
		}
		var sets []heldSet
		var maps []heldMap
		readSet := func(s data.IntSet) []int {
			var out []int
			s.Each(func(v int) { out = append(out, v) })
			return out
		}
		readMap := func(m data.IntMap) map[int]int {
			out := map[int]int{}
			m.Each(func(k, v int) { out[k] = v })
			return out
		}
		h := &gram.Hooks{Budget: gd.LeafTick, Inside: gd.Inside, Outside: gd.Outside, MemoExpr: c.MemoExpr,
			Around: func(e *gram.Expr, p parsley.Parser) parsley.Parser {
				label := e.String()
				return parser.Func(func(ctx *parsley.Context, lrc data.IntMap, pos parsley.Pos) (parsley.Node, data.IntSet, parsley.Error) {
					gd.Tick(ctx)
					if len(maps) < 3000 {
						maps = append(maps, heldMap{lrc, readMap(lrc), label})
					}
					n, cp, err := p.Parse(ctx, lrc, pos)
					if len(sets) < 3000 {
						sets = append(sets, heldSet{cp, readSet(cp), label})
					}
					return n, cp, err
				})
			}}
		b := gram.Build(c.G, h)
		o := gram.Run(env, b.NTs[c.NT], c.Pos)
		if o.Budget != "" || o.Panic != "" {
			a.Count("in-situ: cases over budget (not judged)", 1)
			return
		}
		a.Count("in-situ: parses monitored", 1)
		a.Count("in-situ: curtailing sets and contexts held and re-read", int64(len(sets)+len(maps)))
		nonEmpty := 0
		for _, hs := range sets {
			now := readSet(hs.v)
			if len(hs.want) > 0 {
				nonEmpty++
			}
			for k := 1; k < len(now); k++ {
				if now[k-1] >= now[k] { // sets iterate in ascending order without duplicates, also the ones the parser builds
					d := c.Describe()
					d["returned_by"] = hs.by
					d["set"] = now
					a.Violate("in-situ-set-not-strictly-ascending", "in-situ-set-not-strictly-ascending", d)
					return
				}
			}
			if fmt.Sprint(now) != fmt.Sprint(hs.want) || hs.v.Len() != len(hs.want) {
				d := c.Describe()
				d["returned_by"] = hs.by
				d["set_at_return"] = hs.want
				d["set_at_end_of_parse"] = now
				a.Violate("in-situ-set-value-changed", "in-situ-set-value-changed", d)
				return
			}
		}
		for _, hm := range maps {
			if now := readMap(hm.v); fmt.Sprint(now) != fmt.Sprint(hm.want) {
				d := c.Describe()
				d["passed_to"] = hm.by
				d["context_at_call"] = fmt.Sprint(hm.want)
				d["context_at_end_of_parse"] = fmt.Sprint(now)
				a.Violate("in-situ-map-value-changed", "in-situ-map-value-changed", d)
				return
			}
		}
		if nonEmpty > 0 {
			a.NonTrivial("insitu:" + c.Key())
			a.Count("in-situ: parses with non-empty curtailing sets", 1)
		}
	})
}

func init() {
	run.Register(&run.Check{
		ID:    "C15",
		Title: "IntSet and IntMap are persistent",
		Plan: func(tier string, seed int64) []run.Job {
			var jobs []run.Job
			nrand, per := 16, 15000
			depth := 3
			if tier == "thorough" {
				nrand, per, depth = 64, 100000, 4
			}
			for i := 0; i < nrand; i++ {
				jobs = append(jobs, run.Job{Family: "random", Seed: seed*1000 + int64(i), N: per})
			}
			// large values and long lineages
			nscale, perScale := 8, 24
			if tier == "thorough" {
				nscale, perScale = 32, 60
			}
			for i := 0; i < nscale; i++ {
				jobs = append(jobs, run.Job{Family: "scale", Seed: seed*1000 + 300 + int64(i), N: perScale})
			}
			// the parser's own sets and maps, held while real left-recursive grammars are parsed
			insitu := 30
			if tier == "thorough" {
				insitu = 300
			}
			for i := 0; i < 8; i++ {
				jobs = append(jobs, run.Job{Family: "in-situ", S: "mutual", Seed: seed*1000 + 500 + int64(i), N: insitu, P: map[string]int{"inputs": 4, "maxlen": 8}})
				jobs = append(jobs, run.Job{Family: "in-situ", S: "layered", Seed: seed*1000 + 600 + int64(i), N: insitu, P: map[string]int{"inputs": 4}})
			}
			jobs = append(jobs, run.Job{Family: "in-situ", S: "corpus"})
			first := len(newC15Pool().enumOps(3, 3))
			for lo := 0; lo < first; lo += 2 {
				hi := lo + 2
				if hi > first {
					hi = first
				}
				jobs = append(jobs, run.Job{Family: "exhaustive", Lo: lo, Hi: hi, P: map[string]int{"depth": depth, "dom": 3, "maxlist": 3}})
			}
			return jobs
		},
		Exec: c15exec,
		Finish: func(tier string, a *run.Acc, cov map[string]any) string {
			cov["rule"] = "a case is one prefix of an operation history (NewIntSet/Insert/Union, NewIntMap/Inc/Filter, each applied to any earlier value) " +
				"after which EVERY value produced so far is re-read (Len/Each, Keys/Get/Each) and compared with a plain Go model; " +
				"non-trivial = the history applied an operation to a non-empty earlier value (shared history); distinct = distinct history text. " +
				"families: seeded random histories (4-19 ops, domain 3-8 or 20-60, negative and extreme values), scale histories (sets of up to thousands of members grown by long Insert/Union lineages, counters incremented up to 70000 times with the states at the 8/16-bit boundaries kept, maps of hundreds of keys filtered by larger and smaller sets, members beyond 16/31/32 bits, a caller buffer that is reallocated while sets made from it are held), every sequence of the small scope (domain {0,1,2}, lists up to 3, depth 3 quick / 4 thorough), " +
				"and IN SITU: probes around every sub-parser of real left-recursive grammars (mutual-LR, layered-LR, seed corpus) hold every curtailing-parser set returned and every left-recursion context passed during a parse and re-read them at its end"
			cov["exhaustive_small_scope"] = true
			if a.Counters["values_reread"] == 0 {
				return "no value was re-read"
			}
			return ""
		},
		Assumptions: []string{"the plain Go map/slice model is correct", "NewIntMap takes ownership of its argument (the harness never touches the map it passed)"},
	})
}
