package checks

import (
	"reflect"
	"fmt"
	"strings"

	"github.com/opsidian/parsley/ast"
	"github.com/opsidian/parsley/ast/interpreter"
	"github.com/opsidian/parsley/data"
	"github.com/opsidian/parsley/parser"
	"github.com/opsidian/parsley/parsley"

	"verifharness/internal/gram"
	"verifharness/internal/run"
)

// C07: a returned result is never modified afterwards. Snapshot at return,
// re-check at quiescence (end of the parse).

// identity of a node object: pointer for pointer nodes, "" for values
func nodeIdent(n parsley.Node) string {
	switch v := n.(type) {
	case *ast.TerminalNode:
		return fmt.Sprintf("%p", v)
	case *ast.NonTerminalNode:
		return fmt.Sprintf("%p", v)
	case ast.NodeList:
		if len(v) > 0 {
			return fmt.Sprintf("L%p", &v[0])
		}
	default:
		// the typed literal nodes of text/terminal (*IntegerNode, *NilNode, ...): pointers as well
		if n != nil && reflect.ValueOf(n).Kind() == reflect.Ptr {
			return fmt.Sprintf("%p", n)
		}
	}
	return ""
}

type c07monitor struct {
	base    int
	in      string
	touched map[string]bool // identities of nodes/lists returned through a RightTrim operand
	snaps   []c07snap
	dropped int
	// complete answers (empty curtailing set) per (nonterminal, position)
	complete map[[2]int]parsley.Node
	recMemo  map[string]*c07rec
	recNodes int
	diffMemo map[string][2]bool
	conflict []string
	// objects that a plain (un-memoized) terminal parser returned more than once: nothing in the unchanged library shares
	// those, so a later change of one is never "RightTrim moved its own operand" (K1) but a result somebody else holds
	leafShared map[string]bool
}

// c07graph: a built parser graph with its probes, used for all inputs of one grammar (half of the grammars): the
// probes write into whatever monitor is current
type c07graph struct {
	g        *gram.Grammar
	memo     string
	b        *gram.Built
	gd       *gram.Guard
	m        *c07monitor
	base     int
	leafSeen map[string]*c07monitor // identity of every node a terminal returned -> the monitor of the parse it was returned in
	leafKeep []parsley.Node         // keeps them alive, so that an address is never reused while its identity is on record
}

var c07cache *c07graph

type c07snap struct {
	expr string
	pos  int
	node parsley.Node
	full string  // rendering at return time
	rec  *c07rec // structured copy at return time
}

// c07rec is a deep structured copy of what the public accessors of a node said at return time
type c07rec struct {
	kind  string
	token string
	value string
	pos   int
	rpos  int
	ident string
	kids  []*c07rec
}

// recordTop records one returned result. Parse trees of memoized grammars are DAGs: shared sub-trees are recorded
// once per call (memo) and the total number of records per case is budgeted.
func (m *c07monitor) recordTop(n parsley.Node) *c07rec {
	m.recMemo = map[string]*c07rec{}
	r := m.record(n, 0)
	m.recMemo = nil
	return r
}

func (m *c07monitor) record(n parsley.Node, depth int) *c07rec {
	if n == nil || depth > 100 {
		return &c07rec{kind: "nil"}
	}
	id := nodeIdent(n)
	if id != "" && m.recMemo != nil {
		if r, ok := m.recMemo[id]; ok {
			return r
		}
	}
	m.recNodes++
	r := &c07rec{token: n.Token(), pos: int(n.Pos()) - m.base, rpos: int(n.ReaderPos()) - m.base, ident: id}
	if id != "" && m.recMemo != nil {
		m.recMemo[id] = r
	}
	switch v := n.(type) {
	case ast.EmptyNode:
		r.kind = "empty"
	case *ast.TerminalNode:
		r.kind = "terminal"
		r.value = fmt.Sprint(v.Value())
	case *ast.NonTerminalNode:
		r.kind = "nonterminal"
		for _, c := range v.Children() {
			r.kids = append(r.kids, m.record(c, depth+1))
		}
	case ast.NodeList:
		r.kind = "list"
		for _, c := range v {
			r.kids = append(r.kids, m.record(c, depth+1))
		}
	default:
		r.kind = fmt.Sprintf("%T", n)
	}
	return r
}

func (m *c07monitor) wsOnly(from, to int) bool {
	if from < 0 || to < from || to > len(m.in) {
		return false
	}
	for k := from; k < to; k++ {
		if ch := m.in[k]; ch != ' ' && ch != '\t' && ch != '\n' && ch != '\f' {
			return false
		}
	}
	return true
}

// diff compares the record with the node as it reads now. It returns (changed, explainedByK1):
// explainedByK1 is true when the only differences are end positions of objects that went through a
// RightTrim operand (or EMPTY entries of such lists) that moved forward over whitespace.
func (m *c07monitor) diff(r *c07rec, n parsley.Node, inTouchedList bool, depth int) (bool, bool) {
	if depth > 100 {
		return false, true
	}
	if depth == 0 {
		m.diffMemo = map[string][2]bool{}
	}
	// shared sub-trees are compared once per top-level call
	key := ""
	if id := nodeIdent(n); id != "" {
		key = fmt.Sprintf("%p/%s/%v", r, id, inTouchedList)
		if v, ok := m.diffMemo[key]; ok {
			return v[0], v[1]
		}
		defer func() {}()
	}
	c0, k0 := m.diff0(r, n, inTouchedList, depth)
	if key != "" {
		m.diffMemo[key] = [2]bool{c0, k0}
	}
	return c0, k0
}

func (m *c07monitor) diff0(r *c07rec, n parsley.Node, inTouchedList bool, depth int) (bool, bool) {
	if n == nil {
		return r.kind != "nil", false
	}
	now := &c07rec{token: n.Token(), pos: int(n.Pos()) - m.base, rpos: int(n.ReaderPos()) - m.base, ident: nodeIdent(n)}
	switch n.(type) {
	case ast.EmptyNode:
		now.kind = "empty"
	case *ast.TerminalNode:
		now.kind = "terminal"
	case *ast.NonTerminalNode:
		now.kind = "nonterminal"
	case ast.NodeList:
		now.kind = "list"
	default:
		now.kind = fmt.Sprintf("%T", n)
	}
	changed, k1 := false, true
	if r.kind != now.kind || r.token != now.token && r.kind != "list" {
		return true, false
	}
	switch v := n.(type) {
	case *ast.TerminalNode:
		if fmt.Sprint(v.Value()) != r.value {
			return true, false
		}
	}
	if r.kind == "empty" {
		if r.pos != now.pos {
			changed = true
			if !(inTouchedList && m.wsOnly(r.pos, now.pos)) {
				k1 = false
			}
		}
		return changed, k1
	}
	var kidsNow []parsley.Node
	switch v := n.(type) {
	case *ast.NonTerminalNode:
		kidsNow = v.Children()
	case ast.NodeList:
		kidsNow = v
	}
	if len(kidsNow) != len(r.kids) {
		return true, false
	}
	if r.kind != "list" {
		if r.pos != now.pos {
			return true, false
		}
		if r.rpos != now.rpos {
			changed = true
			if !(m.touched[r.ident] && !m.leafShared[r.ident] && r.ident == now.ident && m.wsOnly(r.rpos, now.rpos)) {
				k1 = false
			}
		}
	}
	touchedList := r.kind == "list" && m.touched[now.ident]
	for i, k := range kidsNow {
		c, ok := m.diff(r.kids[i], k, touchedList, depth+1)
		if c {
			changed = true
			if !ok {
				k1 = false
			}
		}
	}
	return changed, k1
}

// render with every public accessor; masked=true hides what RightTrim is known to move in place (K1)
func (m *c07monitor) render(sb *strings.Builder, n parsley.Node, masked bool, depth int) {
	if depth > 100 || sb.Len() > 1<<15 {
		sb.WriteString("…")
		return
	}
	rp := func(n parsley.Node) string {
		if masked && m.touched[nodeIdent(n)] {
			return "*"
		}
		return fmt.Sprint(int(n.ReaderPos()) - m.base)
	}
	switch v := n.(type) {
	case nil:
		sb.WriteString("<nil>")
	case ast.EmptyNode:
		fmt.Fprintf(sb, "E@%d", int(v.Pos())-m.base)
	case *ast.TerminalNode:
		fmt.Fprintf(sb, "%s{%v}@%d-%s", v.Token(), v.Value(), int(v.Pos())-m.base, rp(v))
	case *ast.NonTerminalNode:
		sb.WriteString(v.Token())
		sb.WriteByte('[')
		for i, c := range v.Children() {
			if i > 0 {
				sb.WriteByte(' ')
			}
			m.render(sb, c, masked, depth+1)
		}
		fmt.Fprintf(sb, "]@%d-%s", int(v.Pos())-m.base, rp(v))
	case ast.NodeList:
		hideEmpty := masked && m.touched[nodeIdent(v)]
		sb.WriteString("LIST(")
		for i, c := range v {
			if i > 0 {
				sb.WriteString(" | ")
			}
			if _, isEmpty := c.(ast.EmptyNode); isEmpty && hideEmpty {
				sb.WriteString("E@*")
				continue
			}
			m.render(sb, c, masked, depth+1)
		}
		sb.WriteByte(')')
	default:
		fmt.Fprintf(sb, "%s@%d-%d", n.Token(), int(n.Pos())-m.base, int(n.ReaderPos())-m.base)
	}
}

func (m *c07monitor) str(n parsley.Node, masked bool) string {
	var sb strings.Builder
	m.render(&sb, n, masked, 0)
	return sb.String()
}

func (m *c07monitor) touch(n parsley.Node) {
	if id := nodeIdent(n); id != "" {
		m.touched[id] = true
	}
	if nl, ok := n.(ast.NodeList); ok {
		for _, c := range nl {
			if id := nodeIdent(c); id != "" {
				m.touched[id] = true
			}
		}
	}
}

// c07previous: results of the PREVIOUS parse, kept across cases. A later, unrelated parse must not change them either
// (state the library keeps between parses - pools, caches - must never alias what it has handed out).
var c07previous struct {
	m     *c07monitor
	snaps []c07snap
	desc  map[string]any
}

func c07build(c GCase) *c07graph {
	gr := &c07graph{g: c.G, memo: fmt.Sprint(c.MemoExpr), leafSeen: map[string]*c07monitor{}}
	gd := gram.NewGuard(0)
	gd.MaxEvents, gd.MaxCalls, gd.MaxList = 60000, 60000, 60
	gd.NoAssert = true
	gr.gd = gd
	snapshot := func(label string, pos parsley.Pos, n parsley.Node) {
		m := gr.m
		if n == nil {
			return
		}
		if len(m.snaps) >= 3000 || m.recNodes > 300000 {
			m.dropped++
			return
		}
		m.snaps = append(m.snaps, c07snap{expr: label, pos: int(pos) - gr.base, node: n, full: m.str(n, false), rec: m.recordTop(n)})
	}
	// parents: which expressions are operands of a RightTrim
	rtrimOperand := map[int]bool{}
	// half of the grammars are built with one parser value per distinct sub-expression (a shared value is a RightTrim
	// operand if any of its occurrences is)
	shareExprs := run.Hash(c.G.String())%4 >= 2
	rtrimOperandStr := map[string]bool{}
	for _, b := range c.G.NTs {
		gram.Walk(b, func(e *gram.Expr) {
			if e.Op == gram.OpRTrim {
				rtrimOperand[e.Kids[0].ID] = true
				rtrimOperandStr[e.Kids[0].String()] = true
			}
		})
	}
	h := &gram.Hooks{
		Budget:      gd.LeafTick,
		Inside:      gd.Inside,
		MemoExpr:    c.MemoExpr,
		ShareLeaves: true,
		ShareExprs:  shareExprs,
		UserAnyTop:  run.Hash(c.G.String())%3 == 1, // a third: memoized Any bodies run by a hand-written alternative combinator
		// a fifth of the grammars use a hand-written terminal with a node type of its own (not the ones with a RightTrim:
		// the K1 signature is defined on the library's own node types)
		UserLeaves: run.Hash(c.G.String())%5 == 1 && len(rtrimOperand) == 0,
		// every sequence carries the library's own list interpreter: the trees are evaluated (twice) after the parse, and
		// evaluation must not change what the parsers returned either
		Interp: interpreter.Array(),
		Leaf: func(e *gram.Expr, p parsley.Parser) parsley.Parser {
			return parser.Func(func(ctx *parsley.Context, lrc data.IntMap, pos parsley.Pos) (parsley.Node, data.IntSet, parsley.Error) {
				n, cp, err := p.Parse(ctx, lrc, pos)
				if id := nodeIdent(n); id != "" {
					if first, seen := gr.leafSeen[id]; seen {
						gr.m.leafShared[id] = true
						first.leafShared[id] = true
					} else if len(gr.leafKeep) < 200000 {
						gr.leafSeen[id] = gr.m
						gr.leafKeep = append(gr.leafKeep, n)
					}
				}
				return n, cp, err
			})
		},
		Around: func(e *gram.Expr, p parsley.Parser) parsley.Parser {
			label := fmt.Sprintf("#%d %s", e.ID, e.String())
			isOperand := rtrimOperand[e.ID] || (shareExprs && rtrimOperandStr[e.String()])
			return parser.Func(func(ctx *parsley.Context, lrc data.IntMap, pos parsley.Pos) (parsley.Node, data.IntSet, parsley.Error) {
				gd.Tick(ctx)
				n, cp, err := p.Parse(ctx, lrc, pos)
				gd.CheckList(n)
				if isOperand && n != nil {
					gr.m.touch(n)
				}
				snapshot(label, pos, n)
				return n, cp, err
			})
		},
		Outside: func(nt int, p parsley.Parser) parsley.Parser {
			inner := gd.Outside(nt, p)
			return parser.Func(func(ctx *parsley.Context, lrc data.IntMap, pos parsley.Pos) (parsley.Node, data.IntSet, parsley.Error) {
				n, cp, err := inner.Parse(ctx, lrc, pos)
				m := gr.m
				snapshot(fmt.Sprintf("N%d", nt), pos, n)
				if cp.Len() == 0 {
					// a complete (uncurtailed) answer: asking again at this position must give the same one
					k := [2]int{nt, int(pos)}
					if first, ok := m.complete[k]; !ok {
						m.complete[k] = n
					} else if was, now := m.str(first, false), m.str(n, false); was != now {
						// both rendered in their current state: an in-place change of the first answer is
						// monitor 1's business, here the two answers themselves must agree
						m.conflict = append(m.conflict, fmt.Sprintf("N%d at offset %d answered %s and later %s", nt, int(pos)-gr.base, was, now))
					}
				}
				return n, cp, err
			})
		},
	}
	gr.b = gram.Build(c.G, h)
	return gr
}

func c07case(c GCase, a *run.Acc) {
	if !a.Begin() {
		return
	}
	a.Count("cases", 1)
	env := gram.NewEnvAt(c.In, c.Before())
	m := &c07monitor{base: env.Base, in: c.In, touched: map[string]bool{}, complete: map[[2]int]parsley.Node{}, leafShared: map[string]bool{}}
	var gr *c07graph
	if run.Hash(c.G.String())%2 == 0 && c07cache != nil && c07cache.g == c.G && c07cache.memo == fmt.Sprint(c.MemoExpr) {
		gr = c07cache
		a.Count("parses on a parser graph that was built for an earlier input", 1)
	} else {
		gr = c07build(c)
		c07cache = gr
		a.Count("sub-expression occurrences served by a parser value built for an earlier occurrence", int64(gr.b.SharedUses))
	}
	gr.gd.Reset(env.Base)
	gr.m, gr.base = m, env.Base
	gd, b := gr.gd, gr.b
	o := gram.Run(env, b.NTs[c.NT], c.Pos)
	a.Count("probe_events", int64(gd.Events))
	// after this case's parse: the previous case's results must still read as they did when they were returned
	if prev := c07previous.m; prev != nil {
		for i := range c07previous.snaps {
			s := &c07previous.snaps[i]
			if changed, byK1 := prev.diff(s.rec, s.node, false, 0); changed && !byK1 {
				d := map[string]any{"earlier_parse": c07previous.desc, "later_parse": c.Describe(), "returned_by": s.expr, "at_return": s.full, "after_the_later_parse": prev.str(s.node, false)}
				a.Violate("result-of-an-earlier-parse-modified-by-a-later-parse", "result-of-an-earlier-parse-modified-by-a-later-parse", d)
				break
			}
		}
		a.Count("results of the previous parse re-read after the next parse", int64(len(c07previous.snaps)))
		c07previous.m = nil
	}
	if o.Budget != "" {
		a.Count("inconclusive:budget ("+o.Budget+")", 1)
		return
	}
	if o.Panic != "" {
		a.Count("inconclusive:panic", 1)
		a.Note("panic in %s on %q: %s", c.G, c.In, o.Panic)
		return
	}
	a.Count("judged", 1)
	// evaluation reads the tree, it must not write to it: every alternative of the result is evaluated twice with the
	// library's interpreter.Array (values and errors are not judged here)
	for _, alt := range gram.Alternatives(o.Node) {
		for k := 0; k < 2; k++ {
			func() {
				defer func() { recover() }()
				parsley.EvaluateNode(nil, alt)
			}()
			a.Count("evaluations of returned trees (library interpreter)", 1)
		}
	}
	// keep up to 150 of this parse's results for the cross-parse re-check of the next case
	keep := m.snaps
	if len(keep) > 150 {
		keep = keep[len(keep)-150:]
	}
	defer func() {
		c07previous.m, c07previous.snaps, c07previous.desc = m, append([]c07snap{}, keep...), c.Describe()
	}()
	a.Count("snapshots taken", int64(len(m.snaps)))
	a.Count("snapshots dropped (cap)", int64(m.dropped))
	for _, cf := range m.conflict {
		d := c.Describe()
		d["observed"] = cf
		a.Violate("same-question-different-answer", "same-question-different-answer", d)
	}
	changed, known := 0, 0
	for i := range m.snaps {
		s := &m.snaps[i]
		now := m.str(s.node, false)
		isChanged, byK1 := m.diff(s.rec, s.node, false, 0)
		if !isChanged && now == s.full {
			continue
		}
		// something changed after it was returned. Classify.
		d := c.Describe()
		d["returned_by"] = s.expr
		d["at_offset"] = s.pos
		d["at_return"] = s.full
		d["at_end_of_parse"] = now
		if len(m.touched) > 0 {
			// K1: only the end position of objects that went through a RightTrim operand moved,
			// and it moved over whitespace only
			// (masked renderings are computed now for both states: the snapshot keeps the node, so
			// the original masked form has to be derived from the stored full form)
			if isChanged && byK1 {
				known++
				a.Violate("readerpos-moved-by-righttrim", "K1-righttrim-moves-readerpos-in-place", d)
				continue
			}
		}
		changed++
		a.Violate("result-modified-after-return", "result-modified-after-return", d)
		if changed > 3 {
			break
		}
	}
	if len(m.snaps) > 0 {
		if gd.NoExec > 0 {
			a.Count("cases with requests answered from the cache / curtailed", 1)
		}
		shared := false
		seen := map[string]bool{}
		for _, s := range m.snaps {
			id := nodeIdent(s.node)
			if id != "" && seen[id+"/"+s.expr] == false && seen[id] {
				shared = true
			}
			if id != "" {
				seen[id] = true
				seen[id+"/"+s.expr] = true
			}
		}
		if shared {
			a.Count("cases in which one result object was returned through several parsers", 1)
			a.NonTrivial(c.Key())
			d := c.Describe()
			d["snapshots"] = len(m.snaps)
			d["known_K1_changes"] = known
			a.Sample(famClass(c.Fam), d)
		}
	}
}

func c07plan(tier string, seed int64) []run.Job {
	var jobs []run.Job
	jobs = append(jobs, run.Job{Family: "corpus"})
	nr, per := 16, 150
	maxNodes := 5
	if tier == "thorough" {
		nr, per, maxNodes = 64, 300, 6
	}
	for i := 0; i < nr; i++ {
		jobs = append(jobs, run.Job{Family: "random", Seed: seed*100000 + int64(i), N: per, P: map[string]int{"strat": 1, "maxlen": 7, "inputs": 5}})
		jobs = append(jobs, run.Job{Family: "random", Seed: seed*100000 + 20000 + int64(i), N: per, P: map[string]int{"strat": 0, "maxlen": 7, "inputs": 5, "ends": 1}})
		jobs = append(jobs, run.Job{Family: "mutual", Seed: seed*100000 + 50000 + int64(i), N: per / 2, P: map[string]int{"inputs": 5, "maxlen": 8}})
		jobs = append(jobs, run.Job{Family: "sharing", Seed: seed*100000 + 60000 + int64(i), N: per * 6, P: map[string]int{"trims": 0}})
		jobs = append(jobs, run.Job{Family: "sharing", Seed: seed*100000 + 70000 + int64(i), N: per * 3, P: map[string]int{"trims": 1}})
		jobs = append(jobs, run.Job{Family: "strings", Seed: seed*100000 + 75000 + int64(i), N: per, P: map[string]int{"inputs": 5}})
		// the typed terminals (a node type each): one memoized literal handed to plain, left-trimmed and right-trimmed
		// (any mode) consumers at one position
		jobs = append(jobs, run.Job{Family: "typed", Seed: seed*100000 + 76000 + int64(i), N: per, P: map[string]int{"inputs": 5, "refonly": 0}})
	}
	jobs = append(jobs, enumJobs(maxNodes, false, 4, 300)...)
	return jobs
}

func init() {
	run.Register(&run.Check{
		ID:    "C07",
		Title: "A returned result is never modified afterwards",
		Plan:  c07plan,
		Exec: func(j run.Job, a *run.Acc) {
			gramCases(j, func(c GCase) { c07case(c, a) })
		},
		Finish: func(tier string, a *run.Acc, cov map[string]any) string {
			cov["rule"] = "a probe around EVERY sub-parser (terminals, combinators, nonterminal references, above Memoize) snapshots each returned node/list " +
				"(identity + deep rendering of token, value, children, start, end, list membership); at the end of the parse every snapshot is re-rendered and compared. " +
				"Second monitor: uncurtailed answers of one memoized parser at one position must be identical. Families: seed corpus, random, mutual-LR, small scope, and " +
				"sharing templates (a memoized producer with 1-7 alternatives consumed 2-5 times at ONE position by appending combinators; with RightTrim consumers for K1). " +
				"A change confined to the end position of objects that passed through a RightTrim operand, moving forward over whitespace only, is the known finding K1; anything else is a violation. " +
				"non-trivial = one result object was returned through several parsers (shared); distinct = distinct case text"
			if a.Counters["snapshots taken"] == 0 {
				return "no snapshot was taken"
			}
			if a.Counters["cases in which one result object was returned through several parsers"] == 0 {
				return "no shared result object was observed"
			}
			return ""
		},
		Assumptions: []string{
			"ctx.EnableTransformation is an explicit in-place pass and belongs to C13, not C07",
			"K1 (text.RightTrim / ast.NodeList.SetReaderPos move the end of their operand's node in place) is a recorded known finding with the signature described in the rule",
		},
	})
}
