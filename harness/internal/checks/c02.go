package checks

import (
	"fmt"
	"strings"

	"github.com/opsidian/parsley/combinator"
	"github.com/opsidian/parsley/parsley"

	"verifharness/internal/gram"
	"verifharness/internal/run"
)

// C02: termination with bounded re-entry per position. Online invariant at a
// probe below every Memoize: active[(nonterminal, position)] <= remaining+2.

var c02cache c01built

func c02case(c GCase, a *run.Acc) {
	if !a.Begin() {
		return
	}
	g := c.G
	a.Count("cases", 1)
	env := gram.NewEnvAt(c.In, c.Before())
	var gd *gram.Guard
	var b *gram.Built
	if run.Hash(g.String())%2 == 1 && c02cache.g == g && fmt.Sprint(c02cache.memo) == fmt.Sprint(c.MemoExpr) {
		// one parser graph for all inputs of the grammar, the way a grammar value is normally used
		gd, b = c02cache.gd, c02cache.b
		gd.Reset(env.Base)
		a.Count("parses on a parser graph that was built for an earlier input", 1)
	} else {
		gd = gram.NewGuard(env.Base)
		gd.MaxEvents, gd.MaxCalls = 150000, 150000
		b = gram.Build(g, &gram.Hooks{Budget: gd.LeafTick, Inside: gd.Inside, Outside: gd.Outside, MemoExpr: c.MemoExpr, ShareLeaves: true, NameOf: c01names(g),
			// the activation bound is claimed for EVERY memoized parser, also the extra wrappers around sub-expressions
			UnderMemo: func(e *gram.Expr, p parsley.Parser) parsley.Parser { return gd.Inside(1000+e.ID, p) }})
		c02cache = c01built{g: g, memo: c.MemoExpr, gd: gd, b: b}
	}
	o := gram.Run(env, b.NTs[c.NT], c.Pos)
	a.Count("probe_events", int64(gd.Events))
	a.Count("executions_of_memoized_parsers", int64(gd.Executed))
	a.Count("curtailed_calls_observed", int64(gd.Curtailed))
	switch {
	case o.Bound != nil:
		a.Violate("activation-bound", "activation-bound", map[string]any{"case": c.Describe(), "observed": o.Bound.String()})
		return
	case o.Budget != "":
		a.Count("inconclusive:budget ("+o.Budget+")", 1)
		return
	case o.Panic != "":
		a.Violate("panic", "panic", map[string]any{"case": c.Describe(), "panic": o.Panic})
		return
	}
	a.Count("returned within budget", 1)
	rem := len(c.In) - c.Pos
	a.SetMax("activation depth", int64(gd.MaxDepth))
	a.SetMax("slack: depth - (remaining+2), must stay <= 0", int64(gd.MaxSlack))
	if gd.AtBound > 0 {
		a.Count("cases that reached the bound exactly", 1)
	}
	if gd.Curtailed > 0 {
		a.Count("cases with curtailment", 1)
		a.NonTrivial(c.Key())
		kinds := g.Kinds()
		for k := range kinds {
			a.Count("curtailing cases by left recursion kind: "+k, 1)
		}
		if _, _, ok := g.Strata(); !ok {
			a.Count("curtailing cases on unstratified grammars", 1)
		}
		d := c.Describe()
		d["max_activation_depth"] = gd.MaxDepth
		d["remaining_input"] = rem
		d["curtailed_calls"] = gd.Curtailed
		cls := famClass(c.Fam)
		if kinds["hidden"] {
			cls += "/hidden"
		}
		a.Sample(cls, d)
	}
	a.SetMax(fmt.Sprintf("activation depth at remaining=%02d", rem), int64(gd.MaxDepth))
}

// c02deepNesting: the classic arithmetic grammar (E -> E + T | T, T -> T * F | F, F -> ( E ) | n, all memoized,
// NO probes: nothing but library frames on the stack) on k nested parentheses, under Go's default stack limit.
// The activation bound holds on it, but the bounded re-entries of all open brackets are on the stack at the same
// time (quadratic in the nesting depth): see known finding K2.
func c02deepNesting(j run.Job, a *run.Acc) {
	if !a.Begin() {
		return
	}
	k := j.Param("depth", 447)
	g := gram.New("ptocn", 3)
	g.NTs[0] = g.Mk(gram.OpAny, g.Mk(gram.OpSeqOf, g.Ref(0), g.Rune('p'), g.Ref(1)), g.Ref(1))
	g.NTs[1] = g.Mk(gram.OpAny, g.Mk(gram.OpSeqOf, g.Ref(1), g.Rune('t'), g.Ref(2)), g.Ref(2))
	g.NTs[2] = g.Mk(gram.OpAny, g.Mk(gram.OpSeqOf, g.Rune('o'), g.Ref(0), g.Rune('c')), g.Rune('n'))
	in := strings.Repeat("o", k) + "n" + strings.Repeat("c", k)
	env := gram.NewEnv(in)
	b := gram.Build(g, nil)
	a.Count("deep-nesting cases (library frames only, default stack limit)", 1)
	node, err := parsley.Parse(env.Ctx, combinator.Sentence(b.NTs[0])) // a stack overflow here is fatal: the driver sees it
	if node == nil || err != nil {
		a.Violate("deep-nesting-not-parsed", "deep-nesting-not-parsed", map[string]any{"nesting": k, "error": fmt.Sprint(err)})
		return
	}
	a.Count("deep-nesting cases that returned", 1)
	a.SetMax("nesting depth parsed without exhausting the stack", int64(k))
}

func c02plan(tier string, seed int64) []run.Job {
	var jobs []run.Job
	jobs = append(jobs, run.Job{Family: "corpus"})
	// grammars built late in the life of the process (parser indices beyond 2^16 and 2^17)
	jobs = append(jobs, run.Job{Family: "random", Seed: seed*100000 + 96000, N: 300, P: map[string]int{"strat": 0, "maxlen": 12, "inputs": 6, "burn": 70000}})
	jobs = append(jobs, run.Job{Family: "mutual", Seed: seed*100000 + 96001, N: 150, P: map[string]int{"inputs": 6, "maxlen": 12, "burn": 140000}})
	// isolated: each of these runs in a worker process of its own (the second one is known to kill it, K2)
	jobs = append(jobs, run.Job{Family: "deep-nesting", S: "arithmetic-255-nested-brackets", P: map[string]int{"depth": 255, "isolated": 1}})
	jobs = append(jobs, run.Job{Family: "deep-nesting", S: "arithmetic-447-nested-brackets", P: map[string]int{"depth": 447, "isolated": 1}})
	for i := 0; i < 8; i++ {
		jobs = append(jobs, run.Job{Family: "long", Seed: seed*100000 + 90000 + int64(i), N: 40})
	}
	nr, per := 16, 400
	maxNodes := 5
	if tier == "thorough" {
		nr, per, maxNodes = 64, 1500, 7
	}
	for i := 0; i < nr; i++ {
		// no stratification filter: termination is claimed for every memoized grammar
		jobs = append(jobs, run.Job{Family: "random", Seed: seed*100000 + int64(i), N: per, P: map[string]int{"strat": 0, "maxlen": 12, "inputs": 6}})
		jobs = append(jobs, run.Job{Family: "random", Seed: seed*100000 + 20000 + int64(i), N: per / 2, P: map[string]int{"strat": 1, "maxlen": 12, "inputs": 6}})
		jobs = append(jobs, run.Job{Family: "layered", Seed: seed*100000 + 80000 + int64(i), N: per / 2, P: map[string]int{"inputs": 6}})
		jobs = append(jobs, run.Job{Family: "mutual", Seed: seed*100000 + 50000 + int64(i), N: per / 2, P: map[string]int{"inputs": 6, "maxlen": 12}})
		// hidden left recursion behind nullable prefixes of every result-list layout (zero-width alternative first / last / repeated)
		jobs = append(jobs, run.Job{Family: "hidden", Seed: seed*100000 + 55000 + int64(i), N: per / 4, P: map[string]int{"inputs": 6, "maxlen": 9}})
		// ... with zero-width marker nodes of the user's own (Pos() == NilPos) among the nullable prefixes
		jobs = append(jobs, run.Job{Family: "hidden", Seed: seed*100000 + 56000 + int64(i), N: per / 4, P: map[string]int{"inputs": 6, "maxlen": 9, "marks": 1}})
		// recursion that runs through SuppressError (around half of the references, left-recursive ones included)
		jobs = append(jobs, run.Job{Family: "mutual", Seed: seed*100000 + 51000 + int64(i), N: per / 4, P: map[string]int{"inputs": 6, "maxlen": 12, "suppress": 1}})
		jobs = append(jobs, run.Job{Family: "hidden", Seed: seed*100000 + 54000 + int64(i), N: per / 4, P: map[string]int{"inputs": 6, "maxlen": 9, "suppress": 1}})
		jobs = append(jobs, run.Job{Family: "random", Seed: seed*100000 + 53000 + int64(i), N: per / 4, P: map[string]int{"strat": 0, "maxlen": 12, "inputs": 6, "suppress": 1}})
		// recursion reached through whitespace-trimming wrappers (LeftTrim/RightTrim in all four modes)
		jobs = append(jobs, run.Job{Family: "random", Seed: seed*100000 + 70000 + int64(i), N: per / 2, P: map[string]int{"strat": 0, "maxlen": 10, "inputs": 6, "trims": 1, "memoexpr": 0}})
	}
	jobs = append(jobs, enumJobs(maxNodes, false, 4, 400)...)
	extNodes := 4
	if tier == "thorough" {
		extNodes = 5
	}
	jobs = append(jobs, enumJobs(extNodes, true, 4, 400)...)
	// two mutually recursive nonterminals, exhaustively in a small scope
	if tier == "thorough" {
		jobs = append(jobs, enum2Jobs(4, 3, 8)...)
	} else {
		jobs = append(jobs, enum2Jobs(3, 3, 4)...)
	}
	return jobs
}

func init() {
	run.Register(&run.Check{
		ID:    "C02",
		Title: "Every memoized grammar terminates with bounded re-entry per position",
		Plan:  c02plan,
		Exec: func(j run.Job, a *run.Acc) {
			if j.Family == "deep-nesting" {
				c02deepNesting(j, a)
				return
			}
			gramCases(j, func(c GCase) { c02case(c, a) })
		},
		Finish: func(tier string, a *run.Acc, cov map[string]any) string {
			cov["rule"] = "case = (grammar, input, entry nonterminal, offset) with every recursive nonterminal memoized and repetition operands consuming input " +
				"(no stratification filter: cyclic, nullable, hidden-left-recursive and unstratified grammars included). A probe below every Memoize counts the simultaneously " +
				"active executions per (nonterminal, position) and asserts <= remaining+2 online; the parent process classifies fatal exits (stack overflow). " +
				"'terminates' is claimed as: returned within the logical budget with the invariant intact. " +
				"non-trivial = a curtailed call was observed; distinct = distinct case text"
			ret := a.Counters["returned within budget"]
			if ret == 0 {
				return "no case returned"
			}
			if a.Counters["curtailed_calls_observed"] == 0 {
				return "no curtailment was observed"
			}
			if ret*10 < a.Counters["cases"]*8 {
				return fmt.Sprintf("only %d of %d cases returned within the logical budget", ret, a.Counters["cases"])
			}
			// Runaway work (as opposed to explosively long result lists of ambiguous grammars) is rare on a healthy
			// tree (~0.05% of the cases). Much more of it is the observable symptom of non-termination: the check
			// cannot call that a violation (a budget is not a proof), but it must not call it "held" either.
			runaway := a.Counters["inconclusive:budget (parser calls)"] + a.Counters["inconclusive:budget (probe events)"]
			if runaway*100 > a.Counters["cases"] {
				return fmt.Sprintf("%d of %d cases exhausted the call/event budget (possible non-termination)", runaway, a.Counters["cases"])
			}
			return ""
		},
		Assumptions: []string{
			"termination is observed as 'returned within the logical step budget'; budget hits are inconclusive and reported, never counted as held",
			"repetition operands that can match the empty string are outside the property (Many(eps) loops by design) and are not generated",
		},
	})
}
