package checks

import (
	"fmt"
	"math/rand"
	"os"
	"path/filepath"
	"strings"
	"time"

	"github.com/opsidian/parsley/ast"
	"github.com/opsidian/parsley/ast/interpreter"
	"github.com/opsidian/parsley/combinator"
	"github.com/opsidian/parsley/data"
	"github.com/opsidian/parsley/parser"
	"github.com/opsidian/parsley/parsley"
	"github.com/opsidian/parsley/text"
	"github.com/opsidian/parsley/text/terminal"

	"verifharness/internal/gram"
	"verifharness/internal/run"
)

// C10: whitespace modes are enforced exactly and permitted whitespace is
// transparent. Token sequences with a whitespace string in every gap and an
// independent assignment of the four modes to the left/right trimming of each
// token; oracle = byte-level simulation of the layout.

type c10tok struct {
	Kind  string `json:"kind"`
	Text  string `json:"text"`
	Left  int    `json:"left"`  // -1: no LeftTrim, else mode
	Right int    `json:"right"` // -1: no RightTrim, else mode
	Trim  bool   `json:"trim"`  // text.Trim (both sides, spaces and newlines)
	Inner string `json:"nesting"`
	// Alt: when set, the token parser is Choice/Any of two trimmed operators - this token's text and Alt - with the same
	// modes and nesting: the trimming happens INSIDE the alternatives (the input always holds Text at this place)
	Alt      string `json:"alternative_text,omitempty"`
	AltFirst bool   `json:"alternative_first,omitempty"`
	AltAny   bool   `json:"alternatives_with_any,omitempty"`
	// AltOut: the two operators are alternatives of ONE Choice/Any and the left trim is around it
	AltOut bool `json:"trim_around_the_alternatives,omitempty"`
	// Wrap: the (trimmed) token parser sits inside a hand-written parser that adds context to its operand's error the
	// usual Go way - parsley.NewErrorf(err.Pos(), "in statement: %w", err) - and passes results through
	Wrap bool `json:"error_wrapped_by_a_user_parser,omitempty"`
}

var c10kinds = []struct{ kind, text string }{
	{"op", "a"}, {"op", "bb"}, {"op", "=="}, {"op", "c"}, {"word", "foo"}, {"word", "x"}, {"integer", "42"}, {"integer", "-7"}, {"string", "\"s t\""}, {"string", "\"\""},
	// every other typed terminal of the library: each returns a node type of its own, with its own copy of the method
	// (SetReaderPos) through which RightTrim moves a node's end
	{"nil", "nil"}, {"bool", "true"}, {"bool", "false"}, {"float", "1.5"}, {"float", "-0.25"}, {"char", "'x'"}, {"char", "'\\n'"}, {"duration", "90s"}, {"duration", "1h30m"}, {"regexp", "ab12"},
}

func c10value(t c10tok) interface{} {
	switch t.Kind {
	case "op":
		return t.Text
	case "word":
		return 7
	case "integer":
		if t.Text == "42" {
			return int64(42)
		}
		return int64(-7)
	case "nil":
		return nil
	case "bool":
		return t.Text == "true"
	case "float":
		if t.Text == "1.5" {
			return float64(1.5)
		}
		return float64(-0.25)
	case "char":
		if t.Text == "'x'" {
			return 'x'
		}
		return '\n'
	case "duration":
		if t.Text == "90s" {
			return 90 * time.Second
		}
		return 90 * time.Minute
	case "regexp":
		return t.Text
	default:
		return t.Text[1 : len(t.Text)-1]
	}
}

// c10lexeme: length of the token the terminal reads at x, or -1 (independent scanners from C08)
func c10lexeme(in string, x int, t c10tok) int {
	var e litExp
	switch t.Kind {
	case "op":
		if strings.HasPrefix(in[x:], t.Text) {
			return len(t.Text)
		}
		return -1
	case "word":
		e = scanWord(in, x, t.Text, 7)
	case "integer":
		e = scanInteger(in, x)
	case "nil", "bool":
		e = scanWord(in, x, t.Text, nil)
	case "float":
		e = scanFloat(in, x)
	case "char":
		e = scanChar(in, x)
	case "duration":
		e = scanDuration(in, x)
	case "regexp": // [a-z]+[0-9]+, longest match
		i := x
		for i < len(in) && in[i] >= 'a' && in[i] <= 'z' {
			i++
		}
		k := i
		for k < len(in) && isDigit(in[k]) {
			k++
		}
		if i == x || k == i {
			return -1
		}
		return k - x
	default:
		e = scanString(in, x, false)
	}
	if e.kind != 1 {
		return -1
	}
	return e.end - x
}

// c10parsers: a token parser is built once per worker process and used for every case that needs it - the way a
// grammar value is defined once and used for many inputs. Nothing a trimmed parser learned from one input
// (its reader, a whitespace run) may leak into the next parse.
var c10parsers = map[string]parsley.Parser{}

func c10parser(t c10tok) parsley.Parser {
	key := fmt.Sprint(t.Kind, "|", t.Text, "|", t.Left, t.Right, t.Trim, t.Inner, "|", t.Alt, t.AltFirst, t.AltAny, t.AltOut, t.Wrap)
	if p, ok := c10parsers[key]; ok {
		return p
	}
	p := c10build(t)
	c10parsers[key] = p
	return p
}

func c10build(t c10tok) parsley.Parser {
	if t.Wrap {
		u := t
		u.Wrap = false
		inner := c10parser(u)
		return parser.Func(func(ctx *parsley.Context, lrc data.IntMap, pos parsley.Pos) (parsley.Node, data.IntSet, parsley.Error) {
			n, cp, err := inner.Parse(ctx, lrc, pos)
			if err != nil {
				err = parsley.NewErrorf(err.Pos(), "in statement: %w", err)
			}
			return n, cp, err
		})
	}
	if t.Alt != "" && t.AltOut {
		ps := []parsley.Parser{terminal.Op(t.Text), terminal.Op(t.Alt)}
		if t.AltFirst {
			ps[0], ps[1] = ps[1], ps[0]
		}
		var p parsley.Parser = combinator.Choice(ps...)
		if t.AltAny {
			p = combinator.Any(ps...)
		}
		if t.Left >= 0 {
			p = text.LeftTrim(p, text.WsMode(t.Left))
		}
		return p
	}
	if t.Alt != "" {
		one, other := t, t
		one.Alt, other.Alt, other.Text = "", "", t.Alt
		ps := []parsley.Parser{c10parser(one), c10parser(other)}
		if t.AltFirst {
			ps[0], ps[1] = ps[1], ps[0]
		}
		if t.AltAny {
			return combinator.Any(ps...)
		}
		return combinator.Choice(ps...)
	}
	var p parsley.Parser
	switch t.Kind {
	case "op":
		p = terminal.Op(t.Text)
	case "word":
		p = terminal.Word("w", t.Text, 7)
	case "integer":
		p = terminal.Integer("i")
	case "nil":
		p = terminal.Nil("n", "nil")
	case "bool":
		p = terminal.Bool("b", "true", "false")
	case "float":
		p = terminal.Float("f")
	case "char":
		p = terminal.Char("c")
	case "duration":
		p = terminal.TimeDuration("d")
	case "regexp":
		p = terminal.Regexp("r", "RE", "identifier", "[a-z]+[0-9]+", 0)
	default:
		p = terminal.String("s", false)
	}
	if t.Trim {
		return text.Trim(p)
	}
	if t.Inner == "left-inside" {
		if t.Left >= 0 {
			p = text.LeftTrim(p, text.WsMode(t.Left))
		}
		if t.Right >= 0 {
			p = text.RightTrim(p, text.WsMode(t.Right))
		}
	} else {
		if t.Right >= 0 {
			p = text.RightTrim(p, text.WsMode(t.Right))
		}
		if t.Left >= 0 {
			p = text.LeftTrim(p, text.WsMode(t.Left))
		}
	}
	return p
}

type c10span struct{ s, e int }

func c10wrapPrefix(t c10tok) string {
	if t.Wrap {
		return "in statement: "
	}
	return ""
}

// c10simulate: expected outcome of the layout. errText "" = success, "TOKEN" = the token
// sequence itself is ill-formed at some point (totality only), else the exact error text.
// c10simulateEnd continues the simulation with LeftTrim(parser.End(), mode) as the last element of the sequence
// ("the file must end with a line break" is WsSpacesForceNl in front of the end of input)
func c10simulateEnd(in string, x int, mode int) string {
	end, errAt, msg := specSkipWs([]byte(in), x, mode)
	if end != len(in) {
		return "TOKEN" // End does not match after the run
	}
	if errAt >= 0 {
		l, cl := lineCol(in, errAt)
		return fmt.Sprintf("failed to parse the input: %s at f:%d:%d", msg, l, cl)
	}
	return ""
}

// c10illFormed: the terminal does not read this token's text here. "TOKEN": the sequence is ill-formed (it must be
// rejected). "RETOKEN": a float / duration / ... literal that abuts the next literal reads a LONGER literal ("-0.25"
// "1.5" is also "-0.251" ".5"): another tokenisation of the same bytes may well be a parse - totality only.
func c10illFormed(t c10tok, lexeme int) string {
	switch t.Kind {
	case "op", "word", "integer", "string":
		return "TOKEN"
	}
	if lexeme >= 0 {
		return "RETOKEN"
	}
	return "TOKEN"
}

func c10simulate(in string, toks []c10tok) (errText string, spans []c10span, x int) {
	c := []byte(in)
	for _, t := range toks {
		left, right := t.Left, t.Right
		if t.Trim {
			left, right = 2, 2
		}
		if left >= 0 {
			end, errAt, msg := specSkipWs(c, x, left)
			if lx := c10lexeme(in, end, t); lx != len(t.Text) {
				return c10illFormed(t, lx), spans, x
			}
			if errAt >= 0 {
				l, cl := lineCol(in, errAt)
				return fmt.Sprintf("failed to parse the input: %s%s at f:%d:%d", c10wrapPrefix(t), msg, l, cl), spans, x
			}
			x = end
		} else if lx := c10lexeme(in, x, t); lx != len(t.Text) {
			return c10illFormed(t, lx), spans, x
		}
		s := x
		x += len(t.Text)
		e := x
		if right >= 0 {
			end, errAt, msg := specSkipWs(c, x, right)
			if errAt >= 0 {
				l, cl := lineCol(in, errAt)
				return fmt.Sprintf("failed to parse the input: %s%s at f:%d:%d", c10wrapPrefix(t), msg, l, cl), spans, x
			}
			x = end
			e = end
		}
		spans = append(spans, c10span{s, e})
	}
	return "", spans, x
}

// c10errOffset: the offset denoted by the line:column at the end of an expected error text (-1: none)
func c10errOffset(in string, want string) int {
	k := strings.LastIndex(want, " at f:")
	if k < 0 {
		return -1
	}
	var l, c int
	if _, err := fmt.Sscanf(want[k+len(" at f:"):], "%d:%d", &l, &c); err != nil {
		return -1
	}
	return offsetOf(in, l, c)
}

var c10ws = []string{" ", "\t", "\n", "\f", "\r\n", "  ", " \n "}

func c10gap(r *rand.Rand) string {
	if r.Intn(2) == 0 {
		return ""
	}
	s := ""
	for i, m := 0, 1+r.Intn(3); i < m; i++ {
		s += c10ws[r.Intn(len(c10ws))]
	}
	return s
}

func c10exec(j run.Job, a *run.Acc) {
	r := rand.New(rand.NewSource(j.Seed))
	for it := 0; it < j.N; it++ {
		k := 1 + r.Intn(4)
		if r.Intn(50) == 0 {
			k = 10 + r.Intn(30) // a long token sequence from time to time
		}
		scale := j.Family == "scale"
		longGaps := false
		if scale {
			// LONG inputs: hundreds to thousands of tokens, or a few tokens with whitespace runs of hundreds to tens of
			// thousands of bytes (CRLF-heavy), so that runs, positions and the file cross 256 B, 4 KiB, 32 KiB and 64 KiB
			switch it % 3 {
			case 0:
				k = 300 + r.Intn(2700)
			case 1:
				k, longGaps = 2+r.Intn(5), true
			default:
				k, longGaps = 40+r.Intn(200), true
			}
		}
		gap := func() string {
			if !longGaps || r.Intn(3) == 0 {
				return c10gap(r)
			}
			n := []int{100, 255, 256, 257, 1000, 4095, 4096, 4097, 20000, 40000}[r.Intn(10)]
			if k > 10 && n > 4097 {
				n = 300
			}
			unit := []string{" ", "\r\n", "\n", " \t", "\r\n ", "\f ", "\r\n", "\r\n\t", "\r\n"}[r.Intn(9)]
			s := strings.Repeat(unit, n/len(unit)+1)
			return c10gap(r) + s[:len(s)-r.Intn(len(unit))]
		}
		var toks []c10tok
		var raw strings.Builder
		for i := 0; i < k; i++ {
			kd := c10kinds[r.Intn(len(c10kinds))]
			t := c10tok{Kind: kd.kind, Text: kd.text, Left: r.Intn(5) - 1, Right: r.Intn(5) - 1, Inner: []string{"left-inside", "right-inside"}[r.Intn(2)]}
			if k > 4 { // long sequences: mostly permissive modes, otherwise they nearly always fail at the first gap
				t.Left, t.Right = []int{-1, 2, 2, 1, 0}[r.Intn(5)], []int{-1, 2, 2, 1, 3}[r.Intn(5)]
			}
			if r.Intn(8) == 0 {
				t.Trim = true
			}
			if t.Kind == "op" && r.Intn(5) == 0 {
				// neither text is a prefix of the other, so the alternatives are never ambiguous
				t.Alt = map[string]string{"a": "bb", "bb": "==", "==": "c", "c": "a"}[t.Text]
				t.AltFirst, t.AltAny, t.AltOut = r.Intn(2) == 0, r.Intn(2) == 0, r.Intn(2) == 0
				// left trimming only: a RightTrim around the alternatives would move the not-found error of the alternative
				// that does not match over the whitespace (RightTrim's error rule), and then that error, not the matching
				// alternative's whitespace error, is the furthest one - a composition the statement says nothing about
				t.Right, t.Trim = -1, false
			}
			if scale {
				// permissive modes: a long input has to be accepted up to its end for the far offsets to be reached at all
				t.Left, t.Right, t.Trim = 2, []int{-1, 2, 2}[r.Intn(3)], false
				if i == k-1 && r.Intn(3) == 0 {
					t.Right = r.Intn(4) // a strict mode at the very end only
				}
			}
			if j.Family == "permitted" {
				// bias towards layouts that the modes accept: the transparency half of the property
				t.Left, t.Right = []int{-1, 2, 2, 1}[r.Intn(4)], []int{-1, 2, 2, 1}[r.Intn(4)]
			}
			if t.Alt != "" {
				t.Right, t.Trim = -1, false // (after the family-specific mode choices above)
			}
			if r.Intn(7) == 0 && !t.Trim {
				t.Wrap = true
			}
			toks = append(toks, t)
			raw.WriteString(gap())
			raw.WriteString(t.Text)
		}
		raw.WriteString(gap())
		rep := r.Intn(3) // 0: SeqOf, 1: Many over one trimmed token kind, 2: SepBy
		nPre := r.Intn(3)
		pre := make([]int, nPre)
		for i := range pre {
			pre[i] = r.Intn(20)
		}
		if r.Intn(12) == 0 {
			pre = append(pre, gram.BigOffsets[r.Intn(len(gram.BigOffsets))]) // beyond a file of 64 KiB ... 2^40 bytes
		}
		viaReadFile := scale && r.Intn(2) == 0
		if !a.Begin() {
			if a.Only >= 0 && a.CaseIdx() < a.Only {
				// replay of a later case: the token parsers have been used by the earlier cases of the job
				func() {
					defer func() { recover() }()
					var ps []parsley.Parser
					for _, t := range toks {
						ps = append(ps, c10parser(t))
					}
					f := gram.NewFileFrom("f", []byte(raw.String()))
					parsley.Parse(parsley.NewContext(parsley.NewFileSet(f), text.NewReader(f)), combinator.Sentence(combinator.SeqOf(ps...)))
				}()
			}
			continue
		}
		a.Count("cases", 1)
		in := string(specNormalise([]byte(raw.String())))
		fs := parsley.NewFileSet()
		for i, n := range pre {
			fs.AddFile(gram.Filler(fmt.Sprintf("p%d", i), n, 0))
		}
		f := gram.NewFileFrom("f", []byte(raw.String()))
		fname := "f"
		if viaReadFile {
			// the input is a file on disk, loaded with text.ReadFile (the file's name is its path)
			dir, derr := os.MkdirTemp(run.OutRoot(), "c10-readfile-")
			if derr != nil {
				a.Note("cannot create a temporary directory: %v", derr)
				continue
			}
			fname = filepath.Join(dir, "f")
			werr := os.WriteFile(fname, []byte(raw.String()), 0o644)
			var rerr error
			if werr == nil {
				f, rerr = text.ReadFile(fname)
			}
			os.RemoveAll(dir)
			if werr != nil || rerr != nil {
				a.Note("temporary file: %v %v", werr, rerr)
				continue
			}
			a.Count("inputs loaded from disk with text.ReadFile", 1)
		}
		rd0 := placeFile(fs, f, it%2 == 1)
		base := int(f.Pos(0))
		ctx := parsley.NewContext(fs, rd0)
		d := map[string]any{"input": in, "tokens": toks, "base_offset": base}
		if scale {
			a.SetMax("scale: input bytes", int64(len(in)))
			a.SetMax("scale: tokens", int64(len(toks)))
			// the input is too long to be copied into a violation record: the replay file regenerates it from the job seed
			d = map[string]any{"input_bytes": len(in), "input_head": trunc(in, 300), "tokens_count": len(toks), "first_tokens": toks[:min(len(toks), 6)], "base_offset": base, "loaded_with": map[bool]string{true: "text.ReadFile", false: "text.NewFile"}[viaReadFile]}
		}

		if j.Family == "repeat" && rep > 0 {
			// Many / SepBy over trimmed tokens: every element uses the first token's parser; success path and totality only
			el := toks[0]
			if el.Kind != "op" && el.Kind != "string" {
				// adjacent integers / words would merge into one lexeme: keep the tokenisation unique
				el.Kind, el.Text = "op", "bb"
			}
			var root parsley.Parser
			var seqToks []c10tok
			form := "Many"
			if rep == 1 {
				root = combinator.Many(c10parser(el))
			} else {
				form = "SepBy"
				sep := c10tok{Kind: "op", Text: "==", Left: el.Left, Right: el.Right, Inner: el.Inner}
				root = combinator.SepBy(c10parser(el), c10parser(sep))
			}
			d["form"] = form
			// build the input from scratch: n elements
			n := r.Intn(4)
			var sb strings.Builder
			for i := 0; i < n; i++ {
				if rep == 2 && i > 0 {
					sep := c10tok{Kind: "op", Text: "==", Left: el.Left, Right: el.Right, Inner: el.Inner}
					sb.WriteString(c10gap(r) + "==")
					seqToks = append(seqToks, sep)
				}
				sb.WriteString(c10gap(r) + el.Text)
				seqToks = append(seqToks, el)
			}
			sb.WriteString(c10gap(r))
			in2 := string(specNormalise([]byte(sb.String())))
			f2 := text.NewFile("f", []byte(sb.String()))
			ctx2 := parsley.NewContext(parsley.NewFileSet(f2), text.NewReader(f2))
			d["input"] = in2
			d["tokens"] = seqToks
			want, spans, xe := c10simulate(in2, seqToks)
			if want == "" && xe != len(in2) {
				want = "TOKEN"
			}
			var node parsley.Node
			var err error
			pan := ""
			func() {
				defer func() {
					if e := recover(); e != nil {
						pan = fmt.Sprint(e)
					}
				}()
				node, err = parsley.Parse(ctx2, combinator.Sentence(root))
			}()
			a.Count("Many/SepBy cases", 1)
			switch {
			case pan != "":
				d["panic"] = pan
				a.Violate("panic", "panic", d)
			case (node == nil) == (err == nil):
				a.Violate("neither-or-both", "neither-or-both", d)
			case want == "" && err != nil:
				d["error"] = err.Error()
				a.Violate("permitted-whitespace-rejected", "permitted-whitespace-rejected", d)
			case want == "" && err == nil:
				items := node.(*ast.NonTerminalNode).Children()[0].(*ast.NonTerminalNode).Children()
				if len(items) != len(spans) {
					d["items"] = len(items)
					a.Violate("item-count", "item-count", d)
					break
				}
				for i, c := range items {
					if int(c.Pos())-1 != spans[i].s || int(c.ReaderPos())-1 != spans[i].e {
						d["item"] = i
						d["got"] = fmt.Sprintf("%d..%d", int(c.Pos())-1, int(c.ReaderPos())-1)
						d["want"] = fmt.Sprintf("%d..%d", spans[i].s, spans[i].e)
						a.Violate("span", "span", d)
						break
					}
				}
				a.Count("accepted layouts checked on every token span and value", 1)
				if len(items) > 1 {
					a.NonTrivial(in2 + fmt.Sprint(seqToks))
				}
			case want != "" && err == nil:
				// a layout the modes forbid somewhere must not be accepted as is... but Many/SepBy may legally stop
				// before the offending element only if the rest is empty, which Sentence excludes: so this is a violation
				a.Violate("forbidden-whitespace-accepted", "forbidden-whitespace-accepted", d)
			case rep == 1 && want != "TOKEN" && want != "RETOKEN" && el.Right < 0 && (el.Alt == "" || el.Left == 3) && c10errOffset(in2, want) > xe:
				// Many stops in front of the element whose whitespace the mode forbids and succeeds with the elements before
				// it; Sentence's End then fails at the end of those, EARLIER than the whitespace error, so the furthest
				// failure - the mode's whitespace error - is what the parse reports (the cases in which the two positions
				// coincide are left to the totality rule: which of two errors at one position is shown is not stated).
				// For an element made of alternatives this is judged in the force-newline mode only: there the whitespace
				// error lies where the alternatives are tried; in the other modes it lies before that place, and the
				// not-found error of an alternative that does not match is the furthest failure
				a.Count("Many: whitespace errors beyond the accepted elements compared (message, line, column)", 1)
				if err.Error() != want {
					d["expected"] = want
					d["error"] = err.Error()
					a.Violate("whitespace-error-mismatch", "whitespace-error-mismatch", d)
				}
			default:
				a.Count("rejected Many/SepBy layouts (totality only)", 1)
			}
			continue
		}

		if j.Family == "backtrack" {
			// two alternatives over the SAME token texts with independent trimming: when the first one fails the second one
			// re-reads the same whitespace from other starting points with the same reader
			toksB := make([]c10tok, len(toks))
			hb := run.Hash(in)
			for i, t := range toks {
				t.Left, t.Right = int(hb>>uint(4*i))%5-1, int(hb>>uint(4*i+2))%5-1
				t.Trim = false
				if t.Alt != "" {
					t.Right = -1 // tokens made of alternatives are left-trimmed only (see the generator)
				}
				toksB[i] = t
			}
			mk := func(ts []c10tok) parsley.Parser {
				var qs []parsley.Parser
				for _, t := range ts {
					qs = append(qs, c10parser(t))
				}
				return combinator.SeqOf(combinator.SeqOf(qs...), parser.End()).Bind(interpreter.Select(0))
			}
			root := combinator.Choice(mk(toks), mk(toksB))
			wantA, spansA, xA := c10simulate(in, toks)
			wantB, spansB, xB := c10simulate(in, toksB)
			okA, okB := wantA == "" && xA == len(in), wantB == "" && xB == len(in)
			var node parsley.Node
			var err error
			pan := ""
			func() {
				defer func() {
					if e := recover(); e != nil {
						pan = fmt.Sprint(e)
					}
				}()
				node, err = parsley.Parse(ctx, root)
			}()
			d["tokens_second_alternative"] = toksB
			a.Count("backtracking cases (two alternatives over the same tokens)", 1)
			switch {
			case pan != "":
				d["panic"] = pan
				a.Violate("panic", "panic", d)
			case (node == nil) == (err == nil):
				a.Violate("neither-or-both", "neither-or-both", d)
			case wantA == "RETOKEN" || wantB == "RETOKEN":
				a.Count("adjacent literals that read as one longer literal (another tokenisation: totality only)", 1)
			case !okA && !okB:
				if err == nil {
					a.Violate("forbidden-whitespace-accepted", "forbidden-whitespace-accepted", d)
				}
				a.Count("backtracking: both alternatives rejected (totality only)", 1)
			case err != nil:
				d["error"] = err.Error()
				a.Violate("permitted-whitespace-rejected", "permitted-whitespace-rejected", d)
			default:
				spans := spansA
				if !okA {
					spans = spansB
					a.Count("backtracking: accepted through the second alternative", 1)
					a.NonTrivial("bt:" + in + fmt.Sprint(toks, toksB))
				}
				seq, ok := node.(*ast.NonTerminalNode).Children()[0].(*ast.NonTerminalNode)
				if !ok || len(seq.Children()) != len(toks) {
					a.Violate("shape", "shape", d)
					break
				}
				for i, c := range seq.Children() {
					if int(c.Pos())-base != spans[i].s || int(c.ReaderPos())-base != spans[i].e {
						d["token_index"] = i
						d["got"] = fmt.Sprintf("%d..%d", int(c.Pos())-base, int(c.ReaderPos())-base)
						d["want"] = fmt.Sprintf("%d..%d", spans[i].s, spans[i].e)
						a.Violate("span", "span", d)
						break
					}
				}
			}
			continue
		}
		var ps []parsley.Parser
		for _, t := range toks {
			ps = append(ps, c10parser(t))
		}
		want, spans, xe := c10simulate(in, toks)
		// a third of the cases end with an explicitly trimmed End instead of Sentence's bare End
		endMode := -1
		if run.Hash(in+fmt.Sprint(len(toks)))%3 == 0 {
			endMode = int(run.Hash(in) % 4)
		}
		if want == "" {
			if endMode >= 0 {
				want = c10simulateEnd(in, xe, endMode)
			} else if xe != len(in) {
				want = "TOKEN"
			}
		}
		if fname != "f" {
			want = strings.Replace(want, " at f:", " at "+fname+":", 1)
		}
		d["expected"] = want
		d["trimmed_end_mode"] = endMode
		named := run.Hash(in+"named")%3 == 0
		d["sequence_named"] = named
		if named {
			a.Count("cases with a named token sequence", 1)
		}
		var node parsley.Node
		var err error
		pan := ""
		func() {
			defer func() {
				if e := recover(); e != nil {
					pan = fmt.Sprint(e)
				}
			}()
			inner := combinator.SeqOf(ps...)
			if named {
				// a named token sequence: the name may only replace not-found errors, never a whitespace error
				inner = inner.Name("the token sequence")
			}
			if endMode >= 0 {
				root := combinator.SeqOf(inner, text.LeftTrim(parser.End(), text.WsMode(endMode))).Bind(interpreter.Select(0))
				node, err = parsley.Parse(ctx, root)
			} else {
				node, err = parsley.Parse(ctx, combinator.Sentence(inner))
			}
		}()
		if endMode >= 0 {
			a.Count("cases ending with a trimmed End", 1)
		}
		if err != nil {
			d["error"] = err.Error()
		}
		switch {
		case pan != "":
			d["panic"] = pan
			a.Violate("panic", "panic", d)
		case (node == nil) == (err == nil):
			a.Violate("neither-or-both", "neither-or-both", d)
		case want == "RETOKEN":
			a.Count("adjacent literals that read as one longer literal (another tokenisation: totality only)", 1)
		case want == "TOKEN":
			a.Count("ill-formed token sequences (totality only)", 1)
			if err == nil {
				a.Violate("ill-formed-sequence-accepted", "ill-formed-sequence-accepted", d)
			}
		case want != "":
			a.Count("whitespace errors compared (message, line, column)", 1)
			a.NonTrivial(in + fmt.Sprint(toks))
			if err == nil || err.Error() != want {
				a.Violate("whitespace-error-mismatch", "whitespace-error-mismatch", d)
			} else {
				a.Sample("rejected", d)
			}
		case err != nil:
			a.Violate("permitted-whitespace-rejected", "permitted-whitespace-rejected", d)
		default:
			seq, ok := node.(*ast.NonTerminalNode).Children()[0].(*ast.NonTerminalNode)
			if !ok || len(seq.Children()) != len(toks) {
				a.Violate("shape", "shape", d)
				break
			}
			good := true
			for i, c := range seq.Children() {
				lv, _ := c.(parsley.LiteralNode)
				if int(c.Pos())-base != spans[i].s || int(c.ReaderPos())-base != spans[i].e {
					d["token_index"] = i
					d["got"] = fmt.Sprintf("%d..%d", int(c.Pos())-base, int(c.ReaderPos())-base)
					d["want"] = fmt.Sprintf("%d..%d", spans[i].s, spans[i].e)
					a.Violate("span", "span", d)
					good = false
					break
				}
				if lv == nil || lv.Value() != c10value(toks[i]) {
					d["token_index"] = i
					a.Violate("value", "value", d)
					good = false
					break
				}
			}
			if good {
				a.Count("accepted layouts checked on every token span and value", 1)
				if strings.ContainsAny(in, " \t\n\f") {
					a.NonTrivial(in + fmt.Sprint(toks))
					a.Sample("accepted", d)
				}
			}
		}
	}
}

func init() {
	run.Register(&run.Check{
		ID:    "C10",
		Title: "Whitespace modes are enforced exactly and permitted whitespace is transparent",
		Plan: func(tier string, seed int64) []run.Job {
			var jobs []run.Job
			n, per := 16, 20000
			if tier == "thorough" {
				n, per = 64, 120000
			}
			for i := 0; i < n; i++ {
				jobs = append(jobs, run.Job{Family: "any-modes", Seed: seed*100000 + int64(i), N: per})
				jobs = append(jobs, run.Job{Family: "permitted", Seed: seed*100000 + 30000 + int64(i), N: per / 2})
				jobs = append(jobs, run.Job{Family: "repeat", Seed: seed*100000 + 60000 + int64(i), N: per / 2})
				jobs = append(jobs, run.Job{Family: "backtrack", Seed: seed*100000 + 80000 + int64(i), N: per / 2})
				jobs = append(jobs, run.Job{Family: "scale", Seed: seed*100000 + 90000 + int64(i), N: per / 160})
			}
			return jobs
		},
		Exec: c10exec,
		Finish: func(tier string, a *run.Acc, cov map[string]any) string {
			cov["rule"] = "case = 1-4 tokens (Op, Word, Integer, String terminals; a fifth of the operators are Choice/Any of two operators trimmed INSIDE the alternatives or around them; one token in seven sits inside a hand-written parser that wraps its errors with %w), each independently wrapped in LeftTrim(mode)|none and RightTrim(mode)|none in both nesting orders, or text.Trim, " +
				"with a whitespace string (space, tab, LF, FF, CRLF mixtures, or empty) in every gap incl. before the first and after the last token; root Sentence(SeqOf(...)); " +
				"also Many/SepBy over a trimmed token; file placed after 0-2 other files, one case in 12 beyond a file of 64 KiB ... 2^40 bytes; family scale: 300-3000 tokens, or whitespace runs of 100-40000 bytes (CRLF-heavy) in the gaps, half of these inputs written to disk and loaded with text.ReadFile. Oracle: byte-level simulation: each trimming parser sees the maximal run where it is invoked; " +
				"the first failing check in parse order gives the exact expected text 'failed to parse the input: <mode message> at f:L:C' (start of run / first line break / end of run); " +
				"otherwise the parse must succeed and every token node must have exactly the expected Pos, ReaderPos (moved only by its own right trim) and value. " +
				"Ill-formed token sequences are checked for totality only. non-trivial = a whitespace error was compared, or a layout containing whitespace was accepted and checked"
			if a.Counters["whitespace errors compared (message, line, column)"] == 0 || a.Counters["accepted layouts checked on every token span and value"] == 0 {
				return "the workload did not reach both the rejecting and the accepting path"
			}
			return ""
		},
		Assumptions: []string{"the byte-level simulation in c10.go/c09.go encodes the statement's mode rules; token lexemes are decided by the C08 scanners"},
	})
}
