package checks

import (
	"github.com/opsidian/parsley/data"
	"math/rand"
	"strconv"
	"strings"

	"github.com/opsidian/parsley/ast"
	"github.com/opsidian/parsley/ast/interpreter"
	"github.com/opsidian/parsley/combinator"
	"github.com/opsidian/parsley/parser"
	"github.com/opsidian/parsley/parsley"
	"github.com/opsidian/parsley/text"
	"github.com/opsidian/parsley/text/terminal"
)

// The classic left-recursive arithmetic grammar, built from library parts only:
//
//	expr   -> expr (+|-) term   | term
//	term   -> term (*|/) factor | factor
//	factor -> Integer | ( expr )
//
// all three memoized, every token left-trimmed (spaces and newlines), root Sentence(Trim(expr)).
type arithParsers struct {
	Root parsley.Parser
	// RootTrimmedEnd: the same language with the other usual way of writing the root: the tokens are left-trimmed, and
	// the end of input is a left-trimmed End() after the expression - SeqOf(expr, LeftTrim(End(), WsSpacesNl)).Bind(Select(0))
	RootTrimmedEnd parsley.Parser
	Expr           *parser.Func
	Term           *parser.Func
	Factor         *parser.Func
}

func arithBinary() parsley.Interpreter {
	return ast.InterpreterFunc(func(u interface{}, n parsley.NonTerminalNode) (interface{}, parsley.Error) {
		c := n.Children()
		lv, err := parsley.EvaluateNode(u, c[0])
		if err != nil {
			return nil, err
		}
		rv, err := parsley.EvaluateNode(u, c[2])
		if err != nil {
			return nil, err
		}
		l, r := lv.(int64), rv.(int64)
		switch c[1].Token() {
		case "+":
			return l + r, nil
		case "-":
			return l - r, nil
		case "*":
			return l * r, nil
		default:
			if r == 0 {
				return nil, parsley.NewErrorf(c[1].Pos(), "division by zero")
			}
			return l / r, nil
		}
	})
}

func newArith() *arithParsers { return newArithOrder(false) }

// newArithOrder: baseFirst lists the non-recursive alternative first (expr -> term | expr (+|-) term), the order used by
// the library's own ExampleMemoize; the language and the values are the same
// arithCallCap: when > 0, a parse of the arithmetic grammar whose context has registered more parser calls than this
// is abandoned with a panic(arithOverCap) raised at the next token (a transparent probe: it forwards everything
// and registers no call). A differential check that knows the call count of the reference run uses it to stop a run
// that has already shown to need far more work, instead of letting it run for minutes and gigabytes.
var arithCallCap int

type arithOverCap struct{ calls int }

func arithCapped(p parsley.Parser) parsley.Parser {
	return parser.Func(func(ctx *parsley.Context, lrc data.IntMap, pos parsley.Pos) (parsley.Node, data.IntSet, parsley.Error) {
		if arithCallCap > 0 && ctx.CallCount() > arithCallCap {
			panic(arithOverCap{ctx.CallCount()})
		}
		return p.Parse(ctx, lrc, pos)
	})
}

func newArithOrder(baseFirst bool) *arithParsers {
	tok := func(p parsley.Parser) parsley.Parser { return arithCapped(text.LeftTrim(p, text.WsSpacesNl)) }
	alts := func(rec, base parsley.Parser) parsley.Parser {
		if baseFirst {
			return combinator.Any(base, rec)
		}
		return combinator.Any(rec, base)
	}
	var expr, term, factor parser.Func
	bin := arithBinary()
	factor = combinator.Memoize(alts(
		combinator.SeqOf(tok(terminal.Rune('(')), &expr, tok(terminal.Rune(')'))).Bind(interpreter.Select(1)),
		tok(terminal.Integer("int")),
	))
	term = combinator.Memoize(alts(
		combinator.SeqOf(&term, tok(combinator.Choice(terminal.Rune('*'), terminal.Rune('/'))), &factor).Bind(bin),
		&factor,
	))
	expr = combinator.Memoize(alts(
		combinator.SeqOf(&expr, tok(combinator.Choice(terminal.Rune('+'), terminal.Rune('-'))), &term).Bind(bin),
		&term,
	))
	a := &arithParsers{Expr: &expr, Term: &term, Factor: &factor}
	a.Root = combinator.Sentence(text.Trim(&expr))
	a.RootTrimmedEnd = combinator.SeqOf(&expr, text.LeftTrim(parser.End(), text.WsSpacesNl)).Bind(interpreter.Select(0))
	return a
}

// ---------------------------------------------------------------------------
// generator: expressions are generated from a random AST following the grammar, so the expected
// value, the first division by zero in evaluation order and its operator offset are known by construction

type arithNode struct {
	op   byte // 0: literal, 'p': parenthesised, else operator
	l, r *arithNode
	lit  string
	val  int64
	opAt int // byte offset of the operator (filled while printing)
}

type arithGen struct {
	r          *rand.Rand
	maxDepth   int
	zeroBias   int // percent of literals that are 0 (division by zero cases)
	longChains bool
	overflow   bool // also emit literals outside int64 (the expression is then ill-formed: mutated family only)
	ws         []string
}

var arithBoundary = []string{"9223372036854775807", "-9223372036854775808", "999999999999999999", "1000000000000000000", "4611686018427387904", "-9223372036854775807", "0x7fffffffffffffff", "0777777777777777777777"}
var arithOverflow = []string{"9223372036854775808", "9999999999999999999", "-9223372036854775809", "18446744073709551616", "99999999999999999999", "0x8000000000000000", "01777777777777777777777"}

func (g *arithGen) literal() *arithNode {
	r := g.r
	if r.Intn(15) == 0 {
		// literals at the edges of int64: the last ones a conversion accepts
		lit := arithBoundary[r.Intn(len(arithBoundary))]
		v, err := strconv.ParseInt(lit, 0, 64)
		if err != nil {
			panic("arith boundary literal: " + err.Error())
		}
		return &arithNode{lit: lit, val: v}
	}
	if g.overflow && r.Intn(15) == 0 {
		return &arithNode{lit: arithOverflow[r.Intn(len(arithOverflow))]}
	}
	var v int64
	switch {
	case r.Intn(100) < g.zeroBias:
		v = 0
	case r.Intn(4) == 0:
		v = int64(r.Uint64() >> uint(1+r.Intn(63)))
	default:
		v = int64(r.Intn(100))
	}
	lit := ""
	switch r.Intn(8) {
	case 0:
		lit = "0x" + strconv.FormatInt(v, 16)
	case 1:
		lit = "0" + strconv.FormatInt(v, 8)
	default:
		lit = strconv.FormatInt(v, 10)
	}
	switch r.Intn(10) {
	case 0:
		lit = "-" + lit
		v = -v
	case 1:
		lit = "+" + lit
	}
	return &arithNode{lit: lit, val: v}
}

func (g *arithGen) factor(d int) *arithNode {
	if d <= 0 || g.r.Intn(3) != 0 {
		return g.literal()
	}
	return &arithNode{op: 'p', l: g.expr(d - 1)}
}

func (g *arithGen) term(d int) *arithNode {
	n := g.factor(d)
	for k := g.r.Intn(3); k > 0 && d > 0; k-- {
		n = &arithNode{op: "*/"[g.r.Intn(2)], l: n, r: g.factor(d - 1)}
	}
	return n
}

func (g *arithGen) expr(d int) *arithNode {
	n := g.term(d)
	k0 := g.r.Intn(3)
	if g.longChains && d == g.maxDepth && g.r.Intn(30) == 0 {
		k0 = 90 + g.r.Intn(70) // a long flat chain at one precedence level: needs the full left-recursion depth
	}
	for k := k0; k > 0 && d > 0; k-- {
		n = &arithNode{op: "+-"[g.r.Intn(2)], l: n, r: g.term(d - 1)}
	}
	return n
}

func (g *arithGen) gap(sb *strings.Builder) {
	if g.r.Intn(3) == 0 {
		for k := 1 + g.r.Intn(2); k > 0; k-- {
			sb.WriteString(g.ws[g.r.Intn(len(g.ws))])
		}
	}
}

func (g *arithGen) print(n *arithNode, sb *strings.Builder) {
	switch n.op {
	case 0:
		g.gap(sb)
		sb.WriteString(n.lit)
	case 'p':
		g.gap(sb)
		sb.WriteByte('(')
		g.print(n.l, sb)
		g.gap(sb)
		sb.WriteByte(')')
	default:
		g.print(n.l, sb)
		g.gap(sb)
		n.opAt = sb.Len()
		sb.WriteByte(n.op)
		g.print(n.r, sb)
	}
}

// eval: left, then right, then the operator; returns value and the node of the first division by zero
func arithEval(n *arithNode) (int64, *arithNode) {
	switch n.op {
	case 0:
		return n.val, nil
	case 'p':
		return arithEval(n.l)
	}
	l, bad := arithEval(n.l)
	if bad != nil {
		return 0, bad
	}
	r, bad := arithEval(n.r)
	if bad != nil {
		return 0, bad
	}
	switch n.op {
	case '+':
		return l + r, nil
	case '-':
		return l - r, nil
	case '*':
		return l * r, nil
	default:
		if r == 0 {
			return 0, n
		}
		return l / r, nil
	}
}

// ---------------------------------------------------------------------------
// independent recogniser / evaluator for arbitrary (mutated) inputs: plain recursive descent
// with precedence loops, the integer lexeme decided by the C08 scanner

type arithRec struct {
	in     string
	pos    int
	divAt  int
	failed bool
	depth  int
}

func (p *arithRec) skip() {
	for p.pos < len(p.in) && specIsWs(p.in[p.pos]) {
		p.pos++
	}
}

func (p *arithRec) factor() int64 {
	p.depth++
	defer func() { p.depth-- }()
	if p.depth > 2000 {
		p.failed = true
		return 0
	}
	p.skip()
	if p.pos < len(p.in) && p.in[p.pos] == '(' {
		p.pos++
		v := p.expr()
		p.skip()
		if p.failed || p.pos >= len(p.in) || p.in[p.pos] != ')' {
			p.failed = true
			return 0
		}
		p.pos++
		return v
	}
	e := scanInteger(p.in, p.pos)
	if e.kind != 1 {
		p.failed = true
		return 0
	}
	p.pos = e.end
	return e.value.(int64)
}

func (p *arithRec) term() int64 {
	v := p.factor()
	for !p.failed {
		save := p.pos
		p.skip()
		if p.pos >= len(p.in) || (p.in[p.pos] != '*' && p.in[p.pos] != '/') {
			p.pos = save
			break
		}
		op, at := p.in[p.pos], p.pos
		p.pos++
		r := p.factor()
		if p.failed {
			break
		}
		if p.divAt >= 0 {
			continue
		}
		if op == '*' {
			v *= r
		} else if r == 0 {
			p.divAt = at
		} else {
			v /= r
		}
	}
	return v
}

func (p *arithRec) expr() int64 {
	v := p.term()
	for !p.failed {
		save := p.pos
		p.skip()
		if p.pos >= len(p.in) || (p.in[p.pos] != '+' && p.in[p.pos] != '-') {
			p.pos = save
			break
		}
		op := p.in[p.pos]
		p.pos++
		r := p.term()
		if p.failed {
			break
		}
		if p.divAt >= 0 {
			continue
		}
		if op == '+' {
			v += r
		} else {
			v -= r
		}
	}
	return v
}

// arithRecognise: ok=false: ill-formed; divAt >= 0: well-formed, first division by zero at that operator offset
func arithRecognise(in string) (ok bool, val int64, divAt int) {
	p := &arithRec{in: in, divAt: -1}
	v := p.expr()
	p.skip()
	if p.failed || p.pos != len(p.in) {
		return false, 0, -1
	}
	return true, v, p.divAt
}
