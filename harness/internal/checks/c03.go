package checks

import (
	"fmt"
	"math/rand"

	"github.com/opsidian/parsley/data"
	"github.com/opsidian/parsley/parser"
	"github.com/opsidian/parsley/parsley"

	"verifharness/internal/gram"
	"verifharness/internal/run"
)

// C03: Memoize is transparent, deterministic and evaluates at most once per
// position. Differential: plain build vs build with a random subset of
// sub-parsers (and nonterminals) wrapped in Memoize; counters in probes below
// every Memoize.

type c03outcome struct {
	results string
	err     string
	ctxPos  int
	calls   int
	budget  string
	panicv  string
	counts  map[string]int // executions below a Memoize per (parser, position)
	hits    int
}

// c03graph is one built parser graph. A graph is normally built once and parsed with many times: half of the cases
// run their two plain parses on ONE plain graph and their two memoized parses on ONE memoized graph (each parse with a
// fresh context), the other half builds a fresh graph for every parse.
type c03graph struct {
	b   *gram.Built
	gd  *gram.Guard
	env *gram.Env
	out *c03outcome
}

func c03build(c GCase, memoExpr map[int]bool, memoNT []bool, plain bool) *c03graph {
	st := &c03graph{gd: gram.NewGuard(0)}
	gd := st.gd
	gd.MaxEvents, gd.MaxCalls, gd.MaxList = 80000, 80000, 100
	g := *c.G
	g.Memo = memoNT
	h := &gram.Hooks{Budget: gd.LeafTick, NoMemo: plain, ShareLeaves: true, UserLeaves: run.Hash(c.G.String())%4 == 1, KeywordLeaves: run.Hash(c.G.String())%4 == 3}
	if run.Hash(c.G.String())%3 == 0 {
		// a third of the grammars name every Any/Choice (Name() -> parser.ReturnError) and, every other one of them, every
		// sequence as well (Sequence.Name): a named parser that fails at its own start returns 'was expecting <name>' -
		// in the plain and in the memoized build alike, on the first parse and on every later one
		nameSeqs := run.Hash(c.G.String())%6 == 0
		h.NameOf = func(e *gram.Expr) string {
			if e.Op == gram.OpAny || e.Op == gram.OpChoice {
				return fmt.Sprintf("alt%d", e.ID)
			}
			if nameSeqs && gram.IsSeqLike(e.Op) {
				return fmt.Sprintf("seq%d", e.ID)
			}
			return ""
		}
	}
	budgetOnly := func(nt int, p parsley.Parser) parsley.Parser {
		return parser.Func(func(ctx *parsley.Context, lrc data.IntMap, pos parsley.Pos) (parsley.Node, data.IntSet, parsley.Error) {
			gd.Tick(ctx)
			n, cp, err := p.Parse(ctx, lrc, pos)
			gd.CheckList(n)
			return n, cp, err
		})
	}
	h.Outside = budgetOnly
	if !plain {
		h.MemoExpr = memoExpr
		h.UnderMemo = func(e *gram.Expr, p parsley.Parser) parsley.Parser {
			key := fmt.Sprintf("#%d", e.ID)
			return parser.Func(func(ctx *parsley.Context, lrc data.IntMap, pos parsley.Pos) (parsley.Node, data.IntSet, parsley.Error) {
				st.out.counts[fmt.Sprintf("%s@%d", key, int(pos)-st.env.Base)]++
				return p.Parse(ctx, lrc, pos)
			})
		}
		h.Inside = func(nt int, p parsley.Parser) parsley.Parser {
			if !memoNT[nt] {
				return p
			}
			return parser.Func(func(ctx *parsley.Context, lrc data.IntMap, pos parsley.Pos) (parsley.Node, data.IntSet, parsley.Error) {
				st.out.counts[fmt.Sprintf("N%d@%d", nt, int(pos)-st.env.Base)]++
				return p.Parse(ctx, lrc, pos)
			})
		}
	}
	st.b = gram.Build(&g, h)
	return st
}

func (st *c03graph) run(c GCase) c03outcome {
	st.env = gram.NewEnvAt(c.In, c.Before()) // a third of the cases parse a later file of a set
	env := st.env
	st.gd.Reset(env.Base)
	out := c03outcome{counts: map[string]int{}}
	st.out = &out
	o := gram.Run(env, st.b.NTs[c.NT], c.Pos)
	out.budget, out.panicv, out.calls = o.Budget, o.Panic, o.Calls
	if o.Bound != nil {
		out.panicv = o.Bound.String()
	}
	out.results = gram.Render(o.Node, env.Base) // ordered: a list renders its alternatives in order
	out.err = "<nil>"
	if o.Err != nil {
		out.err = fmt.Sprintf("%s @%d", o.Err.Error(), int(o.Err.Pos())-env.Base)
	}
	out.ctxPos = -1
	if ce := env.Ctx.Error(); ce != nil {
		out.ctxPos = int(ce.Pos()) - env.Base
	}
	return out
}

func c03run(c GCase, memoExpr map[int]bool, memoNT []bool, plain bool) c03outcome {
	return c03build(c, memoExpr, memoNT, plain).run(c)
}

func c03case(c GCase, r *rand.Rand, a *run.Acc) {
	// memoization subset: any sub-expression, any nonterminal
	var ids []int
	rtrimOperand := map[int]bool{} // never memoized: RightTrim moves its operand's node in place (K1), a cached one would be shared
	for _, b := range c.G.NTs {
		gram.Walk(b, func(e *gram.Expr) {
			if e.Op == gram.OpRTrim {
				rtrimOperand[e.Kids[0].ID] = true
			}
		})
	}
	for _, b := range c.G.NTs {
		gram.Walk(b, func(e *gram.Expr) {
			if e.Op != gram.OpNT && !rtrimOperand[e.ID] {
				ids = append(ids, e.ID)
			}
		})
	}
	memoExpr := map[int]bool{}
	density := 1 + r.Intn(4)
	for _, id := range ids {
		if r.Intn(4) < density-1 || (density == 1 && r.Intn(6) == 0) {
			memoExpr[id] = true
		}
	}
	memoNT := make([]bool, len(c.G.NTs))
	for i := range memoNT {
		memoNT[i] = r.Intn(2) == 0
	}
	if !a.Begin() {
		return
	}
	a.Count("cases", 1)
	if c.G.LeftRecursive() {
		a.Count("skipped:left-recursive", 1)
		return
	}
	var p1, m1, m2, p2 c03outcome
	if run.Hash(c.Key())%2 == 0 {
		a.Count("cases whose repeated parses use ONE built parser graph (fresh context each)", 1)
		pg, mg := c03build(c, nil, memoNT, true), c03build(c, memoExpr, memoNT, false)
		p1 = pg.run(c)
		m1 = mg.run(c)
		m2 = mg.run(c)
		p2 = pg.run(c)
	} else {
		p1 = c03run(c, nil, memoNT, true)
		m1 = c03run(c, memoExpr, memoNT, false)
		m2 = c03run(c, memoExpr, memoNT, false)
		p2 = c03run(c, nil, memoNT, true)
	}
	if p1.budget != "" || m1.budget != "" || m2.budget != "" || p2.budget != "" {
		a.Count("inconclusive:budget", 1)
		return
	}
	d := c.Describe()
	var ml []int
	for id := range memoExpr {
		ml = append(ml, id)
	}
	d["memoized_expression_ids"] = fmt.Sprint(ml)
	d["memoized_nonterminals"] = fmt.Sprint(memoNT)
	d["plain"] = map[string]any{"results": p1.results, "error": p1.err, "ctx_error_pos": p1.ctxPos, "calls": p1.calls}
	d["memoized"] = map[string]any{"results": m1.results, "error": m1.err, "ctx_error_pos": m1.ctxPos, "calls": m1.calls}
	if p1.panicv != "" || m1.panicv != "" || m2.panicv != "" {
		if p1.panicv != "" && m1.panicv != "" {
			a.Count("inconclusive:panic in both builds", 1)
			return
		}
		d["panic"] = p1.panicv + m1.panicv + m2.panicv
		a.Violate("panic-in-one-build", "panic-in-one-build", d)
		return
	}
	a.Count("judged", 1)
	nMemo := len(memoExpr)
	for _, b := range memoNT {
		if b {
			nMemo++
		}
	}
	a.Count("memoize wrappers exercised", int64(nMemo))
	switch {
	case p1.results != m1.results:
		a.Violate("results-differ", "results-differ", d)
		return
	case p1.err != m1.err:
		a.Violate("error-differs", "error-differs", d)
		return
	case p1.ctxPos != m1.ctxPos:
		a.Violate("context-error-position-differs", "context-error-position-differs", d)
		return
	case m1.results != m2.results || m1.err != m2.err || m1.ctxPos != m2.ctxPos || m1.calls != m2.calls:
		d["second_run"] = map[string]any{"results": m2.results, "error": m2.err, "ctx_error_pos": m2.ctxPos, "calls": m2.calls}
		a.Violate("not-reproducible-memoized", "not-reproducible-memoized", d)
		return
	case p1.results != p2.results || p1.err != p2.err || p1.ctxPos != p2.ctxPos || p1.calls != p2.calls:
		a.Violate("not-reproducible-plain", "not-reproducible-plain", d)
		return
	}
	maxCount := 0
	for k, v := range m1.counts {
		a.Count("executions below a Memoize observed", int64(v))
		if v > maxCount {
			maxCount = v
		}
		if v > 1 {
			d["observed"] = fmt.Sprintf("the parser under Memoize %s ran %d times in one parse", k, v)
			a.Violate("evaluated-more-than-once", "evaluated-more-than-once", d)
			return
		}
	}
	if m1.calls < p1.calls {
		a.Count("cases where memoization saved calls", 1)
	}
	if m1.calls > p1.calls {
		// Memoize itself registers no call, so the memoized build can never need more calls
		a.Violate("memoized-build-needs-more-calls", "memoized-build-needs-more-calls", d)
		return
	}
	if nMemo > 0 && len(m1.counts) > 0 {
		a.NonTrivial(c.Key() + fmt.Sprint(ml, memoNT))
		if m1.calls < p1.calls {
			a.Sample(famClass(c.Fam), map[string]any{"case": c.Describe(), "memoized_ids": fmt.Sprint(ml), "plain_calls": p1.calls, "memo_calls": m1.calls, "results": trunc(m1.results, 300), "error": m1.err})
		}
	}
}

func trunc(s string, n int) string {
	if len(s) > n {
		return s[:n] + "…"
	}
	return s
}

func c03plan(tier string, seed int64) []run.Job {
	var jobs []run.Job
	nr, per := 16, 500
	if tier == "thorough" {
		nr, per = 64, 1500
	}
	for i := 0; i < nr; i++ {
		jobs = append(jobs, run.Job{Family: "random", Seed: seed*100000 + int64(i), N: per, P: map[string]int{"strat": 1, "lrfree": 1, "maxlen": 7, "inputs": 5}})
		jobs = append(jobs, run.Job{Family: "sharing", Seed: seed*100000 + 60000 + int64(i), N: per * 8, P: map[string]int{"trims": 0}})
		jobs = append(jobs, run.Job{Family: "strings", Seed: seed*100000 + 65000 + int64(i), N: per, P: map[string]int{"inputs": 6}})
		// LR-free grammars with LeftTrim wrappers (LeftTrim rewrites error positions and the context's error) and End leaves
		// RightTrim around sequences (fresh nodes; K1 - RightTrim moving a SHARED node - stays outside this check, hence no
		// extra Memoize wrappers around sub-expressions here: one could land on a RightTrim operand)
		jobs = append(jobs, run.Job{Family: "random", Seed: seed*100000 + 75000 + int64(i), N: per / 2, P: map[string]int{"strat": 1, "lrfree": 1, "maxlen": 7, "inputs": 5, "trims": 1, "lefttrims": 1, "rtrimseqs": 1, "memoexpr": 0}})
		jobs = append(jobs, run.Job{Family: "random", Seed: seed*100000 + 70000 + int64(i), N: per / 2, P: map[string]int{"strat": 1, "lrfree": 1, "maxlen": 7, "inputs": 5, "trims": 1, "lefttrims": 1, "ends": 1, "memoexpr": 0}})
	}
	jobs = append(jobs, enumJobs(4, true, 4, 300)...)
	return jobs
}

func init() {
	run.Register(&run.Check{
		ID:    "C03",
		Title: "Memoize is transparent, deterministic and evaluates at most once per position",
		Plan:  c03plan,
		Exec: func(j run.Job, a *run.Acc) {
			r := rand.New(rand.NewSource(j.Seed ^ 0x5eed))
			gramCases(j, func(c GCase) { c03case(c, r, a) })
		},
		Finish: func(tier string, a *run.Acc, cov map[string]any) string {
			cov["rule"] = "case = (left-recursion-free grammar over the full combinator set, input, entry, random subset of sub-expressions and nonterminals wrapped in Memoize). " +
				"Each case runs four times with fresh contexts: plain, memoized, memoized again, plain again. Compared: the ORDERED rendering of the result list, " +
				"the returned error (text and position), the position of Context.Error, CallCount (memoized <= plain; equal between repetitions); a probe below every Memoize " +
				"counts executions per (parser, position) and must stay <= 1. Families: random LR-free grammars, sharing templates (memoized producer consumed several times at one position), " +
				"small scope with Choice/Many/SeqTry. non-trivial = at least one Memoize wrapper was executed; distinct = case text + memoization subset"
			if a.Counters["judged"] == 0 {
				return "no case was judged"
			}
			if a.Counters["cases where memoization saved calls"] == 0 {
				return "memoization never saved a call: the workload does not reach cache hits"
			}
			return ""
		},
		Assumptions: []string{
			"the plain (un-memoized) build of the same grammar is the oracle; a defect common to both builds is invisible here (C01 judges results against the reference)",
			"determinism across processes (different map iteration seeds) is covered by Go's per-iteration map randomisation inside one process; no second process is started",
			"grammars with text.RightTrim are not generated here: RightTrim over a memoized operand is observably different from the plain build because of known finding K1 (recorded and monitored under C07, where its signature can be checked precisely)",
		},
	})
}
