package checks

import (
	"fmt"
	"math/rand"
	"strings"
	"time"

	"github.com/opsidian/parsley/ast"
	"github.com/opsidian/parsley/ast/interpreter"
	"github.com/opsidian/parsley/data"
	"github.com/opsidian/parsley/parser"
	"github.com/opsidian/parsley/parsley"
	"github.com/opsidian/parsley/text"
	"github.com/opsidian/parsley/text/terminal"

	"verifharness/internal/run"
)

// C13: tree passes reach every node once, in the documented order. Random
// trees built with the library's constructors; instrumented callbacks and
// interpreters log what they see; the oracle replays the same traversals over
// the generator's own mirror tree.

type c13m struct { // mirror node
	noInterp bool
	id       int
	kind     int // 0 terminal, 1 empty, 2 nonterminal, 3 list (root only)
	kids     []*c13m
	caps     int // bit0 checker, bit1 transformer
	sel      int // >= 0: the node is bound to the library's own interpreter.Select(sel) (no callbacks of the harness)
	node     parsley.Node
	val      interface{} // typed terminal leaves: the value the node was constructed with (hasVal)
	hasVal   bool
}

type c13world struct {
	r      *rand.Rand
	nextID int
	log    []string
	failAt int
	byNode map[parsley.Node]*c13m
	// allowNil: generate non-terminals without an interpreter; hasNil: the tree contains one
	allowNil bool
	hasNil   bool
	nSel     int
	// scale modes: deep = a chain of mostly single-child non-terminals (depth 40-340), wide = the next non-terminal gets
	// 300-1800 children
	deep bool
	wide bool
	// leaves created so far (candidates for an equal second occurrence) and the number of such occurrences
	leaves    []*c13m
	dupLeaves int
	// leaves of the user's own non-comparable node type, by id
	userLeaves map[int]*c13m
	nUser      int
	nTyped     int
	nBoth      int
}

type c13interp struct {
	w *c13world
	m *c13m
}

func (i c13interp) Eval(u interface{}, n parsley.NonTerminalNode) (interface{}, parsley.Error) {
	i.w.log = append(i.w.log, fmt.Sprintf("eval %d same=%v u=%v", i.m.id, n == i.m.node, u))
	if i.m.id == i.w.failAt {
		return nil, parsley.NewErrorf(n.Pos(), "fail %d", i.m.id)
	}
	// evaluate the children that have values, depth first
	for _, c := range n.Children() {
		switch c.(type) {
		case parsley.NonLiteralNode:
			if _, err := parsley.EvaluateNode(u, c); err != nil {
				return nil, err
			}
		}
	}
	return i.m.id, nil
}

type c13interpC struct{ c13interp }

func (i c13interpC) StaticCheck(u interface{}, n parsley.NonTerminalNode) (interface{}, parsley.Error) {
	var ks []string
	for _, c := range n.Children() {
		ks = append(ks, fmt.Sprint(c.Schema()))
	}
	i.w.log = append(i.w.log, fmt.Sprintf("check %d same=%v u=%v kids=[%s]", i.m.id, n == i.m.node, u, strings.Join(ks, ",")))
	if i.m.id == i.w.failAt {
		return nil, parsley.NewErrorf(n.Pos(), "fail %d", i.m.id)
	}
	if c13silent(i.m.id, u) {
		return nil, nil // a checker may have nothing to say about the type of its node (statements, blocks)
	}
	return fmt.Sprintf("S%d@%v", i.m.id, u), nil
}

// c13silent: whether the checker of node id has no schema to report under user context u. It depends on the user
// context (a symbol table in which a name is known in one pass and unknown in the next): a node that got a schema in
// one pass must lose it in a later pass in which its checker returns nil.
func c13silent(id int, u interface{}) bool {
	return (id+len(fmt.Sprint(u)))%5 == 2
}

type c13interpT struct{ c13interp }

func (i c13interpT) TransformNode(u interface{}, n parsley.Node) (parsley.Node, parsley.Error) {
	i.w.log = append(i.w.log, fmt.Sprintf("transform %d same=%v u=%v", i.m.id, n == i.m.node, u))
	if i.m.id == i.w.failAt {
		return nil, parsley.NewErrorf(n.Pos(), "fail %d", i.m.id)
	}
	if i.m.id%4 == 0 {
		// a transformer may legally decide to keep the node as it is: the node still "has its own transformer",
		// so nothing below it is transformed by the library
		return n, nil
	}
	if nt, ok := n.(*ast.NonTerminalNode); ok && i.m.id%4 == 1 && len(nt.Children()) > 0 {
		// a replacement that is itself transformable (a fresh non-terminal with a transformer of its own, around the old
		// children with theirs): what a node's transformer returns is final, the library must not transform it again
		return ast.NewNonTerminalNode("REPLACEMENT", nt.Children(), c13interpR{i.c13interp}), nil
	}
	return ast.NewTerminalNode(fmt.Sprintf("ST%d", i.m.id), fmt.Sprintf("T%d", i.m.id), nil, n.Pos(), n.ReaderPos()), nil
}

// c13interpR: the interpreter of a replacement node; its transformer must never be called
type c13interpR struct{ c13interp }

func (i c13interpR) TransformNode(u interface{}, n parsley.Node) (parsley.Node, parsley.Error) {
	i.w.log = append(i.w.log, fmt.Sprintf("transform-of-the-replacement-for %d u=%v", i.m.id, u))
	return n, nil
}

type c13interpCT struct{ c13interpC }

func (i c13interpCT) TransformNode(u interface{}, n parsley.Node) (parsley.Node, parsley.Error) {
	return c13interpT{i.c13interp}.TransformNode(u, n)
}

func (w *c13world) gen(d int) *c13m {
	w.nextID++
	m := &c13m{id: w.nextID, sel: -1}
	k := w.r.Intn(10)
	if (w.deep || w.wide) && d > 0 {
		k = 3 + w.r.Intn(7)
	}
	if d <= 0 || k < 3 {
		if len(w.leaves) > 0 && w.r.Intn(4) == 0 {
			// a leaf that is EQUAL to an earlier one: the same terminal node object mentioned twice (parse trees of memoized
			// grammars are DAGs) or a second EmptyNode at the same position (two zero-width matches at one place on
			// different levels). Every pass has to treat the occurrences separately; they share the earlier leaf's id.
			e := w.leaves[w.r.Intn(len(w.leaves))]
			w.nextID--
			w.dupLeaves++
			return &c13m{id: e.id, sel: -1, kind: e.kind, node: e.node, val: e.val, hasVal: e.hasVal}
		}
		defer func() { w.leaves = append(w.leaves, m) }()
		switch {
		case k == 0:
			m.kind = 1
			m.node = ast.EmptyNode(parsley.Pos(m.id))
		case w.r.Intn(6) == 0:
			// a leaf of the USER's own node type: a value struct with a slice in it (not comparable with ==), the node a
			// hand-written terminal may return; the library must not need to compare nodes in order to walk, check,
			// transform or evaluate a tree
			m.node = c13valLeaf{id: m.id, tags: []string{"user", "leaf"}}
			w.userLeaves[m.id] = m
			w.nUser++
			return m
		case w.r.Intn(4) == 0:
			// a leaf of one of the library's TYPED terminal node types (each has its own copy of Schema / Pos / ...)
			sc, p := fmt.Sprintf("S%d", m.id), parsley.Pos(m.id)
			m.hasVal = true
			switch w.r.Intn(7) {
			case 0:
				m.val = int64(m.id)
				m.node = terminal.NewIntegerNode(sc, int64(m.id), p, p)
			case 1:
				m.val = float64(m.id)
				m.node = terminal.NewFloatNode(sc, float64(m.id), p, p)
			case 2:
				m.val = m.id%2 == 0
				m.node = terminal.NewBoolNode(sc, m.id%2 == 0, p, p)
			case 3:
				m.val = nil
				m.node = terminal.NewNilNode(sc, p, p)
			case 4:
				m.val = rune('a' + m.id%26)
				m.node = terminal.NewCharNode(sc, rune('a'+m.id%26), p, p)
			case 5:
				m.val = fmt.Sprint(m.id)
				m.node = terminal.NewStringNode(sc, fmt.Sprint(m.id), p, p)
			default:
				m.val = time.Duration(m.id) * time.Second
				m.node = terminal.NewTimeDurationNode(sc, time.Duration(m.id)*time.Second, p, p)
			}
			w.nTyped++
		default:
			m.node = ast.NewTerminalNode(fmt.Sprintf("S%d", m.id), "t", m.id, parsley.Pos(m.id), parsley.Pos(m.id))
		}
		w.byNode[m.node] = m
		return m
	}
	if !w.deep && !w.wide && d > 0 && w.r.Intn(12) == 0 {
		// a non-terminal of the USER's own that is also Walkable: Children() lists only some of the nodes below it, its
		// Walk covers all of them (a node that keeps part of its subtree to itself). The documented order of Walk says
		// a Walkable node decides how it is walked; the static check rides on Walk.
		m.kind = 4
		var hidden, listed []parsley.Node
		for i, n := 0, 1+w.r.Intn(2); i < n; i++ {
			c := w.gen(d - 1)
			m.kids = append(m.kids, c)
			hidden = append(hidden, c.node)
		}
		for i, n := 0, w.r.Intn(3); i < n; i++ {
			c := w.gen(d - 1)
			m.kids = append(m.kids, c)
			listed = append(listed, c.node)
		}
		m.node = &c13bothNode{id: m.id, hidden: hidden, listed: listed}
		w.byNode[m.node] = m
		w.nBoth++
		return m
	}
	m.kind = 2
	m.caps = w.r.Intn(4)
	var ip parsley.Interpreter
	base := c13interp{w, m}
	if w.allowNil && w.r.Intn(5) == 0 {
		// a non-terminal WITHOUT any interpreter (a sequence that was never bound): legal for Walk,
		// StaticCheck and Transform; only evaluation needs an interpreter on every non-terminal
		m.caps = 0
		m.noInterp = true
		w.hasNil = true
	}
	switch {
	case m.noInterp:
		ip = nil
	default:
		switch m.caps {
		case 0:
			ip = base
		case 1:
			ip = c13interpC{base}
		case 2:
			ip = c13interpT{base}
			if m.id%2 == 0 {
				// the same capabilities assembled from the library's own function adapters (ast.InterpreterFunc for the
				// evaluation, parsley.NodeTransformFunc for the transformer) - for every node shape, empty ones included
				ip = struct {
					ast.InterpreterFunc
					parsley.NodeTransformFunc
				}{base.Eval, c13interpT{base}.TransformNode}
			}
		case 3:
			ip = c13interpCT{c13interpC{base}}
			if m.id%2 == 0 {
				ip = struct {
					c13interpC
					parsley.NodeTransformFunc
				}{c13interpC{base}, c13interpT{base}.TransformNode}
			}
		}
	}
	n := w.r.Intn(5)
	if w.r.Intn(60) == 0 {
		n = 10 + w.r.Intn(40) // a wide node from time to time
		d = 1
	}
	if w.deep && d > 1 {
		n = 1 + w.r.Intn(8)/7
	}
	if w.wide {
		n, d, w.wide = 300+w.r.Intn(1500), 1, false
	}
	if n == 0 {
		m.node = ast.NewEmptyNonTerminalNode("N", parsley.Pos(m.id), ip)
		w.byNode[m.node] = m
		return m
	}
	var kids []parsley.Node
	for i := 0; i < n; i++ {
		cd := d - 1
		if w.deep && i > 0 && cd > 2 {
			cd = 2 // the chain continues through the first child only
		}
		c := w.gen(cd)
		m.kids = append(m.kids, c)
		kids = append(kids, c.node)
	}
	if !m.noInterp && w.r.Intn(6) == 0 {
		// the library's stock interpreter for "the value of my i-th child" (what Sentence, brackets and parentheses bind);
		// the selected child is one that has a value (an empty node has none)
		var cands []int
		for i, c := range m.kids {
			if c.kind != 1 {
				cands = append(cands, i)
			}
		}
		if len(cands) > 0 {
			m.caps, m.sel = 0, cands[w.r.Intn(len(cands))]
			ip = interpreter.Select(m.sel)
			w.nSel++
		}
	}
	m.node = ast.NewNonTerminalNode("N", kids, ip)
	w.byNode[m.node] = m
	return m
}

func c13post(m *c13m, out *[]*c13m) {
	for _, k := range m.kids {
		c13post(k, out)
	}
	*out = append(*out, m)
}

// c13shapeMirror: the shape of an untransformed mirror subtree (same format as c13shape)
func c13shapeMirror(m *c13m) string {
	if m.kind != 2 {
		return fmt.Sprintf("L%d", m.id)
	}
	var ks []string
	for _, k := range m.kids {
		ks = append(ks, c13shapeMirror(k))
	}
	return fmt.Sprintf("N%d(%s)", m.id, strings.Join(ks, " "))
}

func c13shape(w *c13world, nd parsley.Node) string {
	if nt, ok := nd.(*ast.NonTerminalNode); ok {
		var ks []string
		for _, k := range nt.Children() {
			ks = append(ks, c13shape(w, k))
		}
		id := 0
		if m := w.lookup(nd); m != nil {
			id = m.id
		}
		return fmt.Sprintf("N%d(%s)", id, strings.Join(ks, " "))
	}
	if nd == nil {
		return "<nil>"
	}
	if m := w.lookup(nd); m != nil {
		return fmt.Sprintf("L%d", m.id)
	}
	if strings.HasPrefix(nd.Token(), "T") { // the terminal a transformer put in a node's place ("T<id>")
		return nd.Token()
	}
	return "?"
}

// c13bothNode: a node type of the user's own that is a parsley.NonTerminalNode (Children, Value) AND parsley.Walkable
type c13bothNode struct {
	id             int
	hidden, listed []parsley.Node
}

func (b *c13bothNode) Token() string                                  { return "BOTH" }
func (b *c13bothNode) Schema() interface{}                            { return nil }
func (b *c13bothNode) Pos() parsley.Pos                               { return parsley.Pos(b.id) }
func (b *c13bothNode) ReaderPos() parsley.Pos                         { return parsley.Pos(b.id) }
func (b *c13bothNode) Children() []parsley.Node                       { return b.listed }
func (b *c13bothNode) Value(interface{}) (interface{}, parsley.Error) { return b.id, nil }
func (b *c13bothNode) Walk(f func(parsley.Node) bool) bool {
	for _, n := range b.hidden {
		if parsley.Walk(n, f) {
			return true
		}
	}
	for _, n := range b.listed {
		if parsley.Walk(n, f) {
			return true
		}
	}
	return false // (parsley.Walk visits the node itself after its Walk method)
}

// c13valLeaf: a terminal node type of the user's own - a VALUE type that cannot be compared (it carries a slice)
type c13valLeaf struct {
	id   int
	tags []string
}

func (l c13valLeaf) Token() string          { return "t" }
func (l c13valLeaf) Schema() interface{}    { return fmt.Sprintf("S%d", l.id) }
func (l c13valLeaf) Pos() parsley.Pos       { return parsley.Pos(l.id) }
func (l c13valLeaf) ReaderPos() parsley.Pos { return parsley.Pos(l.id) }
func (l c13valLeaf) Value() interface{}     { return l.id }

// lookup finds the mirror of a node (user leaves cannot be map keys)
func (w *c13world) lookup(nd parsley.Node) *c13m {
	if ul, ok := nd.(c13valLeaf); ok {
		return w.userLeaves[ul.id]
	}
	if nd == nil {
		return nil
	}
	return w.byNode[nd]
}

// c13tree generates the tree of a case; the same caseSeed gives an identical twin (same shape, ids and interpreters)
func c13tree(caseSeed int64, a *run.Acc) (*c13world, *c13m) {
	w := &c13world{r: rand.New(rand.NewSource(caseSeed)), failAt: -1, byNode: map[parsley.Node]*c13m{}, userLeaves: map[int]*c13m{}}
	w.allowNil = caseSeed%3 == 0
	depth := 1 + w.r.Intn(6)
	switch caseSeed % 41 {
	case 5:
		w.deep, depth = true, 40+w.r.Intn(300)
		if a != nil {
			a.Count("deep trees (40-340 levels)", 1)
		}
	case 6:
		w.wide = true
		if a != nil {
			a.Count("wide trees (a node with 300-1800 children)", 1)
		}
	}
	root := w.gen(depth)
	w.deep = false
	return w, root
}

// c13shapeSchemas renders a tree with the schema recorded on every node
func c13shapeSchemas(w *c13world, nd parsley.Node) string {
	if nd == nil {
		return "<nil>"
	}
	s := fmt.Sprintf("%s:%v", nd.Token(), nd.Schema())
	if m := w.lookup(nd); m != nil {
		s = fmt.Sprintf("#%d:%v", m.id, nd.Schema())
	}
	if nt, ok := nd.(*ast.NonTerminalNode); ok {
		var ks []string
		for _, k := range nt.Children() {
			ks = append(ks, c13shapeSchemas(w, k))
		}
		s += "(" + strings.Join(ks, " ") + ")"
	}
	return s
}

func c13exec(j run.Job, a *run.Acc) {
	r := rand.New(rand.NewSource(j.Seed))
	for it := 0; it < j.N; it++ {
		caseSeed := r.Int63()
		if !a.Begin() {
			continue
		}
		c13one(j, a, caseSeed)
	}
}

// c13one runs one case; a panic anywhere in the library's passes is a violation of its own
func c13one(j run.Job, a *run.Acc, caseSeed int64) {
	defer func() {
		if e := recover(); e != nil {
			a.Violate("panic", "panic", map[string]any{"case_seed": caseSeed, "panic": fmt.Sprint(e)})
		}
	}()
	{
		w, root := c13tree(caseSeed, a)
		var order []*c13m // post-order of the tree that Walk is expected to follow
		listRoot := false
		var rootNode parsley.Node = root.node
		first := root
		if w.r.Intn(6) == 0 {
			// an alternative list at the root: Walk covers the first alternative, then the list itself
			listRoot = true
			alt2 := w.gen(2)
			rootNode = ast.NodeList([]parsley.Node{root.node, alt2.node})
		}
		c13post(first, &order)
		nNodes := len(order)
		desc := func(extra map[string]any) map[string]any {
			m := map[string]any{"tree": c13shape(w, root.node), "list_root": listRoot, "case_seed": caseSeed}
			for k, v := range extra {
				m[k] = v
			}
			return m
		}
		a.Count("trees", 1)
		a.Count("nodes", int64(nNodes))
		a.Count("nodes bound to the library's own interpreter.Select", int64(w.nSel))
		a.Count("leaves equal to an earlier leaf of the same tree (same object / same empty position)", int64(w.dupLeaves))
		a.Count("leaves of a user-defined, non-comparable node type", int64(w.nUser))
		a.Count("leaves of the library's typed terminal node types", int64(w.nTyped))
		a.Count("user-defined nodes that are both a non-terminal and Walkable", int64(w.nBoth))

		// ---- Walk: post-order, every node once, stops right after the first true
		total := nNodes
		if listRoot {
			total++
		}
		stop := w.r.Intn(total + 2) // 0 and total+1: never stops
		var visited []string
		res := parsley.Walk(rootNode, func(nd parsley.Node) bool {
			if _, isList := nd.(ast.NodeList); isList {
				visited = append(visited, "list")
			} else if m := w.lookup(nd); m != nil {
				visited = append(visited, fmt.Sprint(m.id))
			} else {
				visited = append(visited, "?")
			}
			return len(visited) == stop
		})
		var wantVisit []string
		for _, m := range order {
			wantVisit = append(wantVisit, fmt.Sprint(m.id))
		}
		if listRoot {
			wantVisit = append(wantVisit, "list")
		}
		wantRes := stop >= 1 && stop <= total
		if wantRes {
			wantVisit = wantVisit[:stop]
		}
		a.Count("walk callbacks observed", int64(len(visited)))
		if strings.Join(visited, ",") != strings.Join(wantVisit, ",") || res != wantRes {
			a.Violate("walk-order", "walk-order", desc(map[string]any{"visited": visited, "expected": wantVisit, "stop_at": stop, "returned": res}))
		}

		// ---- StaticCheck: bottom-up, checkers see their children's final schemas, first error aborts
		var checkers []*c13m
		for _, m := range order {
			if m.kind == 2 && m.caps&1 == 1 {
				checkers = append(checkers, m)
			}
		}
		w.failAt = -1
		if len(checkers) > 0 && w.r.Intn(2) == 0 {
			w.failAt = checkers[w.r.Intn(len(checkers))].id
		}
		w.log = nil
		err := parsley.StaticCheck("UC", rootNode)
		var want []string
		schema := map[int]string{}
		for _, m := range order {
			if m.kind == 0 {
				schema[m.id] = fmt.Sprintf("S%d", m.id)
			}
		}
		// expected log and schemas of one pass with user context uc; prior = schemas left on the nodes by earlier passes
		expectPass := func(uc string, failAt int, schema map[int]string) (want []string, failed bool) {
			for _, m := range order {
				if m.kind != 2 {
					continue
				}
				if m.sel >= 0 { // Select's checker: silently hands on the schema of the selected child
					if s, has := schema[m.kids[m.sel].id]; has {
						schema[m.id] = s
					} else {
						delete(schema, m.id)
					}
					continue
				}
				if m.caps&1 == 0 {
					continue
				}
				var ks []string
				for _, k := range m.kids {
					s, has := schema[k.id]
					if !has {
						s = "<nil>"
					}
					ks = append(ks, s)
				}
				want = append(want, fmt.Sprintf("check %d same=true u=%s kids=[%s]", m.id, uc, strings.Join(ks, ",")))
				if m.id == failAt {
					return want, true
				}
				if c13silent(m.id, uc) {
					delete(schema, m.id)
				} else {
					schema[m.id] = fmt.Sprintf("S%d@%s", m.id, uc)
				}
			}
			return want, false
		}
		verifySchemas := func(pass string) {
			for _, m := range order {
				if m.kind == 2 {
					s, has := schema[m.id]
					got := m.node.Schema()
					if has && got != s || !has && got != nil {
						a.Violate("schema-not-recorded", "schema-not-recorded", desc(map[string]any{"pass": pass, "node": m.id, "got": fmt.Sprint(got), "want": s}))
					}
				}
			}
		}
		want, failed := expectPass("UC", w.failAt, schema)
		a.Count("checker invocations observed", int64(len(w.log)))
		if strings.Join(w.log, ";") != strings.Join(want, ";") || (err != nil) != failed || (err != nil && err.Error() != fmt.Sprintf("fail %d", w.failAt)) {
			a.Violate("static-check-order", "static-check-order", desc(map[string]any{"pass": "first", "log": w.log, "expected": want, "error": fmt.Sprint(err), "fail_at": w.failAt}))
		}
		verifySchemas("first")
		// a SECOND pass over the same tree (another user context; e.g. re-checking after a pass that aborted):
		// every checker runs again, sees its children's schemas of THIS pass and the new schema replaces the old one
		w.failAt = -1
		w.log = nil
		err2 := parsley.StaticCheck("UC2", rootNode)
		want2, _ := expectPass("UC2", -1, schema)
		a.Count("checker invocations observed", int64(len(w.log)))
		if strings.Join(w.log, ";") != strings.Join(want2, ";") || err2 != nil {
			a.Violate("static-check-second-pass", "static-check-second-pass", desc(map[string]any{"pass": "second", "log": w.log, "expected": want2, "error": fmt.Sprint(err2)}))
		}
		verifySchemas("second")
		a.Count("second static-check passes over an already checked tree", 1)
		// and a THIRD pass with the first user context again: the nodes whose checkers are silent under it lose the
		// schema the second pass gave them, the others get theirs back
		w.log = nil
		err3 := parsley.StaticCheck("UC", rootNode)
		want3, _ := expectPass("UC", -1, schema)
		a.Count("checker invocations observed", int64(len(w.log)))
		if strings.Join(w.log, ";") != strings.Join(want3, ";") || err3 != nil {
			a.Violate("static-check-second-pass", "static-check-second-pass", desc(map[string]any{"pass": "third", "log": w.log, "expected": want3, "error": fmt.Sprint(err3)}))
		}
		verifySchemas("third")
		if failed {
			a.Count("static checks aborted by an injected error", 1)
		}

		// ---- evaluation hands each interpreter exactly its node and the user context
		if root.kind == 2 && !listRoot && !w.hasNil {
			var nts []*c13m
			var pre func(m *c13m)
			var wantE []string
			evalFail := -1
			// the interpreters evaluation reaches: a Select node evaluates its selected child only
			var reach func(m *c13m)
			reach = func(m *c13m) {
				if m.kind != 2 {
					return
				}
				if m.sel >= 0 {
					reach(m.kids[m.sel])
					return
				}
				nts = append(nts, m)
				for _, k := range m.kids {
					reach(k)
				}
			}
			reach(root)
			if len(nts) > 0 && w.r.Intn(3) == 0 {
				evalFail = nts[w.r.Intn(len(nts))].id
			}
			stopE := false
			pre = func(m *c13m) {
				if stopE || m.kind != 2 {
					return
				}
				if m.sel >= 0 {
					pre(m.kids[m.sel])
					return
				}
				wantE = append(wantE, fmt.Sprintf("eval %d same=true u=UE", m.id))
				if m.id == evalFail {
					stopE = true
					return
				}
				for _, k := range m.kids {
					pre(k)
				}
			}
			pre(root)
			var valueOf func(m *c13m) interface{}
			valueOf = func(m *c13m) interface{} {
				switch {
				case m.kind == 1:
					return nil
				case m.kind == 2 && m.sel >= 0:
					return valueOf(m.kids[m.sel])
				case m.hasVal:
					return m.val
				}
				return m.id
			}
			wantV := valueOf(root)
			w.failAt = evalFail
			w.log = nil
			v, eerr := parsley.EvaluateNode("UE", root.node)
			a.Count("interpreter invocations observed", int64(len(w.log)))
			if strings.Join(w.log, ";") != strings.Join(wantE, ";") || (eerr != nil) != (evalFail >= 0) || (eerr == nil && v != wantV) {
				a.Violate("evaluation", "evaluation", desc(map[string]any{"log": w.log, "expected": wantE, "value": fmt.Sprint(v), "error": fmt.Sprint(eerr)}))
			}
			// the same tree evaluated AGAIN (a tree is parsed once and evaluated with many contexts; an evaluation that
			// failed - a variable that was missing - is repeated once the cause is gone): every interpreter runs again on its
			// node, and this time nothing fails
			stopE, wantE, evalFail = false, nil, -1
			pre(root)
			for i := range wantE {
				wantE[i] = strings.Replace(wantE[i], "u=UE", "u=UE2", 1)
			}
			w.failAt = -1
			w.log = nil
			v2, eerr2 := parsley.EvaluateNode("UE2", root.node)
			a.Count("interpreter invocations observed", int64(len(w.log)))
			a.Count("second evaluations of an already evaluated tree", 1)
			if strings.Join(w.log, ";") != strings.Join(wantE, ";") || eerr2 != nil || v2 != wantV {
				a.Violate("evaluation-repeated", "evaluation-repeated", desc(map[string]any{"log": w.log, "expected": wantE, "value": fmt.Sprint(v2), "error": fmt.Sprint(eerr2), "first_evaluation_failed": eerr != nil}))
			}
		}

		// ---- Transform: own transformer where present, else children rebuilt recursively; error aborts
		var transformers []*c13m
		var collectT func(m *c13m)
		collectT = func(m *c13m) { // transformers that will actually be reached
			if m.kind != 2 {
				return
			}
			if m.caps&2 != 0 {
				transformers = append(transformers, m)
				return
			}
			for _, k := range m.kids {
				collectT(k)
			}
		}
		collectT(root)
		w.failAt = -1
		if len(transformers) > 0 && w.r.Intn(3) == 0 {
			w.failAt = transformers[w.r.Intn(len(transformers))].id
		}
		var wantT []string
		abort := false
		var tr func(m *c13m) string
		tr = func(m *c13m) string {
			if abort {
				return ""
			}
			if m.kind != 2 {
				return fmt.Sprintf("L%d", m.id)
			}
			if m.caps&2 != 0 {
				wantT = append(wantT, fmt.Sprintf("transform %d same=true u=UT", m.id))
				if m.id == w.failAt {
					abort = true
					return ""
				}
				if m.id%4 == 0 { // identity transformer: the node stays, with its children untouched
					return c13shapeMirror(m)
				}
				if m.id%4 == 1 && len(m.kids) > 0 { // fresh non-terminal around the untouched children
					var ks []string
					for _, k := range m.kids {
						ks = append(ks, c13shapeMirror(k))
					}
					return fmt.Sprintf("N0(%s)", strings.Join(ks, " "))
				}
				return fmt.Sprintf("T%d", m.id)
			}
			var ks []string
			for _, k := range m.kids {
				ks = append(ks, tr(k))
			}
			return fmt.Sprintf("N%d(%s)", m.id, strings.Join(ks, " "))
		}
		wantShape := tr(root)
		w.log = nil
		viaParse := w.r.Intn(3) == 0 && !listRoot
		var out parsley.Node
		var terr error
		if viaParse {
			// the same passes through parsley.Parse with transformation enabled
			f := text.NewFile("f", []byte("x"))
			ctx := parsley.NewContext(parsley.NewFileSet(f), text.NewReader(f))
			ctx.EnableTransformation()
			ctx.SetUserContext("UT")
			out, terr = parsley.Parse(ctx, parser.Func(func(*parsley.Context, data.IntMap, parsley.Pos) (parsley.Node, data.IntSet, parsley.Error) {
				return root.node, data.EmptyIntSet, nil
			}))
		} else {
			var e parsley.Error
			if listRoot {
				out, e = parsley.Transform("UT", rootNode)
			} else {
				out, e = parsley.Transform("UT", root.node)
			}
			if e != nil {
				terr = e
			}
		}
		a.Count("transformer invocations observed", int64(len(w.log)))
		switch {
		case listRoot:
			// a list has no transformer and is handed back untouched
			if terr != nil || len(w.log) != 0 {
				a.Violate("transform-list-root", "transform-list-root", desc(map[string]any{"log": w.log, "error": fmt.Sprint(terr)}))
			}
		case abort:
			if terr == nil || strings.Join(w.log, ";") != strings.Join(wantT, ";") {
				a.Violate("transform-abort", "transform-abort", desc(map[string]any{"log": w.log, "expected": wantT, "error": fmt.Sprint(terr)}))
			}
			a.Count("transformations aborted by an injected error", 1)
		default:
			if terr != nil || c13shape(w, out) != wantShape || strings.Join(w.log, ";") != strings.Join(wantT, ";") {
				a.Violate("transform", "transform", desc(map[string]any{"got": c13shape(w, out), "expected": wantShape, "log": w.log, "expected_log": wantT, "error": fmt.Sprint(terr)}))
			}
		}
		// ---- parsley.Parse with transformation AND static checking enabled = Transform, then StaticCheck of the tree that
		// Transform returned (also when the root's own transformer replaced the root). Two identical twins of the tree:
		// one goes through Parse with both switches, the other through the two public passes by hand; logs, error and the
		// returned trees with their recorded schemas must agree.
		if caseSeed%4 == 1 && !listRoot {
			wA, rootA := c13tree(caseSeed, nil)
			wB, rootB := c13tree(caseSeed, nil)
			fail := -1
			if w.r.Intn(3) == 0 {
				fail = 1 + w.r.Intn(w.nextID)
			}
			wA.failAt, wB.failAt = fail, fail
			f := text.NewFile("f", []byte("x"))
			ctx := parsley.NewContext(parsley.NewFileSet(f), text.NewReader(f))
			ctx.EnableTransformation()
			ctx.EnableStaticCheck()
			ctx.SetUserContext("UB")
			outA, errA := parsley.Parse(ctx, parser.Func(func(*parsley.Context, data.IntMap, parsley.Pos) (parsley.Node, data.IntSet, parsley.Error) {
				return rootA.node, data.EmptyIntSet, nil
			}))
			outB, e1 := parsley.Transform("UB", rootB.node)
			var errB error
			if e1 != nil {
				errB, outB = ctx.FileSet().ErrorWithPosition(e1), nil // Parse renders the position of the error
			} else if e2 := parsley.StaticCheck("UB", outB); e2 != nil {
				errB, outB = ctx.FileSet().ErrorWithPosition(e2), nil
			}
			a.Count("trees sent through Parse with transformation and static check both enabled", 1)
			sA, sB := c13shapeSchemas(wA, outA), c13shapeSchemas(wB, outB)
			if strings.Join(wA.log, ";") != strings.Join(wB.log, ";") || fmt.Sprint(errA) != fmt.Sprint(errB) || sA != sB {
				a.Violate("parse-with-both-passes", "parse-with-both-passes", desc(map[string]any{"fail_at": fail,
					"log_of_Parse": wA.log, "log_of_Transform_then_StaticCheck": wB.log, "error_of_Parse": fmt.Sprint(errA), "error_by_hand": fmt.Sprint(errB),
					"tree_of_Parse": trunc(sA, 1500), "tree_by_hand": trunc(sB, 1500)}))
			}
		}
		if nNodes >= 3 {
			a.NonTrivial(c13shape(w, root.node) + fmt.Sprint(listRoot))
			a.Sample("tree", desc(map[string]any{"nodes": nNodes, "walk_stop": stop}))
		}
	}
}

func init() {
	run.Register(&run.Check{
		ID:    "C13",
		Title: "Tree passes reach every node once, in the documented order",
		Plan: func(tier string, seed int64) []run.Job {
			var jobs []run.Job
			n, per := 16, 10000
			if tier == "thorough" {
				n, per = 64, 80000
			}
			for i := 0; i < n; i++ {
				jobs = append(jobs, run.Job{Family: "trees", Seed: seed*100000 + int64(i), N: per})
			}
			return jobs
		},
		Exec: c13exec,
		Finish: func(tier string, a *run.Acc, cov map[string]any) string {
			cov["rule"] = "case = a random tree built with ast.NewNonTerminalNode / NewEmptyNonTerminalNode / NewTerminalNode / EmptyNode (arity 0-4 and now and then 10-50, depth <= 6; one tree in 41 a chain 40-340 levels deep, one in 41 with a node of 300-1800 children; optionally an alternative list at the root), " +
				"interpreters from four capability classes (plain, +StaticChecker, +NodeTransformer, both) plus the library's own interpreter.Select; checkers that return a nil schema; transformers that return the node itself, a leaf or a fresh transformable non-terminal; instrumented callbacks log (kind, node id, what they saw). Oracle = the same traversals over the generator's mirror tree: " +
				"Walk post-order with a stop at a random visit; StaticCheck bottom-up with children's schemas, stored schemas and an injected failure; evaluation order with identical node + user context and an injected failure, then a second evaluation of the same tree with another context and without the failure; " +
				"Transform (own transformer, else children, injected failure), directly and through parsley.Parse with EnableTransformation; a quarter of the trees also through Parse with transformation AND static check enabled, compared with Transform followed by StaticCheck on an identical twin. non-trivial = tree with >= 3 nodes; distinct = distinct tree shape"
			if a.Counters["walk callbacks observed"] == 0 || a.Counters["checker invocations observed"] == 0 || a.Counters["transformer invocations observed"] == 0 {
				return "some pass was never observed"
			}
			return ""
		},
		Assumptions: []string{"the mirror-tree traversals in c13.go encode the documented order"},
	})
}
