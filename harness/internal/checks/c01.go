package checks

import (
	"fmt"
	"math/rand"
	"sort"
	"strings"

	"github.com/opsidian/parsley/parsley"

	"verifharness/internal/gram"
	"verifharness/internal/refsem"
	"verifharness/internal/run"
)

// C01: parse results equal the grammar's derivations. Differential monitor:
// the result returned by a memoized nonterminal (observed through probes) is
// compared with the reference least-fixpoint semantics.

type c01result struct {
	ends  []int
	trees []string
}

func sameInts(a, b []int) bool {
	if len(a) != len(b) {
		return false
	}
	for i := range a {
		if a[i] != b[i] {
			return false
		}
	}
	return true
}

func sameStrings(a, b []string) bool {
	if len(a) != len(b) {
		return false
	}
	for i := range a {
		if a[i] != b[i] {
			return false
		}
	}
	return true
}

// c01built caches the parsers built for the previous case: half of the grammars are built ONCE and
// reused for all their inputs (the normal way of using a parser graph), the other half is rebuilt per case
type c01built struct {
	g    *gram.Grammar
	memo map[int]bool
	gd   *gram.Guard
	b    *gram.Built
}

var c01cache c01built

func c01case(c GCase, a *run.Acc) {
	if !a.Begin() {
		return
	}
	g := c.G
	a.Count("cases", 1)
	if _, _, ok := g.Strata(); !ok {
		a.Count("skipped:unstratified (no least-fixpoint meaning)", 1)
		return
	}
	rfe := &refsem.Ref{G: g, In: c.In, EndsOnly: true, Cap: 100000}
	if !rfe.Compute() {
		a.Count("inconclusive:reference budget", 1)
		return
	}
	wantEnds := rfe.Ends(c.NT, c.Pos)
	rft := &refsem.Ref{G: g, In: c.In, Cap: 300}
	treesOK := rft.Compute()
	if rfe.Grey || rft.Grey {
		a.Count("inconclusive:a typed terminal met a spelling its documented syntax is silent about", 1)
		return
	}
	var wantTrees []string
	if treesOK {
		wantTrees = rft.Trees(c.NT, c.Pos)
	}

	env := gram.NewEnvAt(c.In, c.Before())
	var gd *gram.Guard
	var b *gram.Built
	reuse := run.Hash(g.String())%2 == 0
	if reuse && c01cache.g == g && fmt.Sprint(c01cache.memo) == fmt.Sprint(c.MemoExpr) {
		gd, b = c01cache.gd, c01cache.b
		gd.Reset(env.Base)
		a.Count("parses on a parser graph that was built for an earlier input", 1)
	} else {
		gd = gram.NewGuard(env.Base)
		gd.MaxEvents, gd.MaxCalls = 60000, 120000
		gd.NoAssert = true // the activation bound is C02's business; here results are judged whenever the call returns
		var userAnyOnly map[int]bool
		if c.Fam == "userlist" {
			userAnyOnly = map[int]bool{1: true} // the producer only: its consumers are the library's own combinators
		}
		b = gram.Build(g, &gram.Hooks{Budget: gd.LeafTick, Inside: gd.Inside, Outside: gd.Outside, MemoExpr: c.MemoExpr, ShareLeaves: true, ShareExprs: run.Hash(g.String())%4 >= 2, NameOf: c01names(g), UserAnyTop: run.Hash(g.String())%5 == 3 || c.Fam == "userlist", UserAnyOnly: userAnyOnly,
			// the activation bound is claimed for EVERY memoized parser, also the extra wrappers around sub-expressions
			UnderMemo: func(e *gram.Expr, p parsley.Parser) parsley.Parser { return gd.Inside(1000+e.ID, p) }})
		c01cache = c01built{g: g, memo: c.MemoExpr, gd: gd, b: b}
	}
	gd.FileEnd = env.Base + len(c.In)
	gd.SpanViolation = ""
	o := gram.Run(env, b.NTs[c.NT], c.Pos)
	if gd.SpanViolation != "" {
		a.Violate("result-outside-its-span", "result-outside-its-span", map[string]any{"case": c.Describe(), "observed": gd.SpanViolation})
		return
	}
	a.Count("probe_events", int64(gd.Events))
	a.Count("curtailed_calls_observed", int64(gd.Curtailed))
	a.Count("requests_answered_without_execution(cache hit or curtailed)", int64(gd.NoExec))
	switch {
	case o.Budget != "":
		a.Count("inconclusive:implementation budget ("+o.Budget+")", 1)
		return
	case o.Panic != "":
		a.Violate("panic", "panic", map[string]any{"case": c.Describe(), "panic": o.Panic})
		return
	}
	a.Count("judged", 1)
	alts := gram.Alternatives(o.Node)
	endSet := map[int]bool{}
	treeSet := map[string]bool{}
	for _, n := range alts {
		endSet[int(n.ReaderPos())-env.Base] = true
		treeSet[gram.Render(n, env.Base)] = true
	}
	var gotEnds []int
	for e := range endSet {
		gotEnds = append(gotEnds, e)
	}
	sort.Ints(gotEnds)
	var gotTrees []string
	for t := range treeSet {
		gotTrees = append(gotTrees, t)
	}
	sort.Strings(gotTrees)

	detail := func(extra map[string]any) map[string]any {
		d := map[string]any{"case": c.Describe(), "impl_ends": gotEnds, "ref_ends": wantEnds}
		if len(gotTrees) <= 12 {
			d["impl_trees"] = gotTrees
		}
		if treesOK && len(wantTrees) <= 12 {
			d["ref_trees"] = wantTrees
		}
		for k, v := range extra {
			d[k] = v
		}
		return d
	}

	bad := false
	if !sameInts(gotEnds, wantEnds) {
		a.Violate("ends-mismatch", "ends-mismatch", detail(nil))
		bad = true
	}
	// every returned tree must be a derivation
	if !bad {
		for _, n := range alts {
			v := &refsem.Validator{Ends: rfe, Base: env.Base}
			if !v.Valid(n, g.NTs[c.NT], c.Pos) {
				if v.Steps > 200000 {
					a.Count("inconclusive:validator budget", 1)
					continue
				}
				a.Violate("invalid-tree", "invalid-tree", detail(map[string]any{"tree": gram.Render(n, env.Base), "why": v.Why}))
				bad = true
				break
			}
			a.Count("trees_validated", 1)
		}
	}
	if !bad && treesOK && !sameStrings(gotTrees, wantTrees) {
		a.Violate("trees-mismatch", "trees-mismatch", detail(nil))
		bad = true
	}
	if !treesOK {
		a.Count("cases with too many/infinitely many trees (judged on ends + validity)", 1)
	}
	if len(wantEnds) > 0 {
		a.Count("cases with a non-empty reference result", 1)
		if gd.NoExec > 0 || gd.Curtailed > 0 {
			a.NonTrivial(c.Key())
			a.Count("nontrivial", 1)
			d := c.Describe()
			d["ends"] = gotEnds
			d["trees"] = len(gotTrees)
			d["curtailed_calls"] = gd.Curtailed
			a.Sample(famClass(c.Fam), d)
		}
		if treesOK && len(wantTrees) > 1 {
			a.Count("ambiguous cases (more than one tree)", 1)
		}
	}
	if gd.Curtailed > 0 {
		for k := range g.Kinds() {
			a.Count("curtailing cases by left recursion kind: "+k, 1)
		}
	}
	a.SetMax("activation depth", int64(gd.MaxDepth))
}

// c01names: a fifth of the grammars give a Name() to every Any, Choice and sequence. A name replaces the error of a
// parser that failed at its own start - it has no say in which results exist, what is cached or what is curtailed.
func c01names(g *gram.Grammar) func(e *gram.Expr) string {
	if run.Hash(g.String())%5 != 1 {
		return nil
	}
	return func(e *gram.Expr) string {
		if e.Op == gram.OpAny || e.Op == gram.OpChoice || gram.IsSeqLike(e.Op) {
			return fmt.Sprintf("x%d", e.ID)
		}
		return ""
	}
}

func famClass(f string) string {
	if len(f) > 7 && f[:7] == "corpus:" {
		return "corpus"
	}
	if len(f) > 5 && f[:5] == "long:" {
		return "long"
	}
	return f
}

// c01longCase: left-recursive grammars whose derivations are known in closed form, on inputs of 1000+ bytes
// (the reference fixpoint is cubic in the input length and only practical for short inputs): the memoized
// nonterminal must return exactly the expected end positions, one tree per end.
func c01longCase(j run.Job, a *run.Acc) {
	r := rand.New(rand.NewSource(j.Seed))
	for it := 0; it < j.N; it++ {
		k := 1020 + r.Intn(j.Param("span", 700))
		shape := r.Intn(3)
		if !a.Begin() {
			continue
		}
		g := gram.New("abcx", 1)
		var in string
		var want []int
		switch shape {
		case 0: // P -> P b | a
			g.NTs[0] = g.Mk(gram.OpAny, g.Mk(gram.OpSeqOf, g.Ref(0), g.Rune('b')), g.Rune('a'))
			in = "a" + strings.Repeat("b", k)
			for e := 1; e <= k+1; e++ {
				want = append(want, e)
			}
		case 1: // L -> L c a | a
			g.NTs[0] = g.Mk(gram.OpAny, g.Mk(gram.OpSeqOf, g.Ref(0), g.Rune('c'), g.Rune('a')), g.Rune('a'))
			in = "a" + strings.Repeat("ca", k/2)
			for e := 1; e <= len(in); e += 2 {
				want = append(want, e)
			}
		default: // hidden: P -> x? P b | a, prefix absent
			g.NTs[0] = g.Mk(gram.OpAny, g.Mk(gram.OpSeqOf, g.Mk(gram.OpOpt, g.Rune('x')), g.Ref(0), g.Rune('b')), g.Rune('a'))
			in = "a" + strings.Repeat("b", k)
			for e := 1; e <= k+1; e++ {
				want = append(want, e)
			}
		}
		c := GCase{G: g, In: in, Fam: "long-closed-form"}
		env := gram.NewEnvAt(in, c.Before())
		b := gram.Build(g, nil) // no probes: their frames would only add to the (legitimately deep) recursion
		o := gram.Run(env, b.NTs[0], 0)
		a.Count("cases", 1)
		a.Count("long closed-form cases (1000+ bytes)", 1)
		d := map[string]any{"grammar": g.String(), "input_length": len(in), "input_prefix": in[:12]}
		if o.Panic != "" {
			d["panic"] = o.Panic
			a.Violate("panic", "panic", d)
			continue
		}
		a.Count("judged", 1)
		var got []int
		seen := map[int]bool{}
		for _, alt := range gram.Alternatives(o.Node) {
			e := int(alt.ReaderPos()) - env.Base
			if seen[e] {
				d["duplicate_end"] = e
			}
			seen[e] = true
			got = append(got, e)
		}
		sort.Ints(got)
		if !sameInts(got, want) {
			d["ends_returned"] = len(got)
			d["ends_expected"] = len(want)
			if len(got) > 0 {
				d["largest_end_returned"] = got[len(got)-1]
			}
			d["largest_end_expected"] = want[len(want)-1]
			a.Violate("ends-mismatch", "ends-mismatch", d)
			continue
		}
		a.NonTrivial(fmt.Sprintf("long/%d/%d", shape, k))
		a.Count("nontrivial", 1)
		a.SetMax("input length", int64(len(in)))
		a.Sample("long-closed-form", d)
	}
}

func c01plan(tier string, seed int64) []run.Job {
	var jobs []run.Job
	jobs = append(jobs, run.Job{Family: "corpus"})
	// grammars built late in the life of the process (parser indices beyond 2^16)
	jobs = append(jobs, run.Job{Family: "random", Seed: seed*100000 + 96000, N: 300, P: map[string]int{"strat": 1, "maxlen": 8, "inputs": 6, "burn": 70000}})
	for i := 0; i < 8; i++ {
		jobs = append(jobs, run.Job{Family: "long", Seed: seed*100000 + 90000 + int64(i), N: 40})
	}
	nr, per := 16, 260
	maxNodes := 5
	if tier == "thorough" {
		nr, per, maxNodes = 64, 420, 7
	}
	for i := 0; i < nr; i++ {
		jobs = append(jobs, run.Job{Family: "random", Seed: seed*100000 + int64(i), N: per, P: map[string]int{"strat": 1, "maxlen": 8, "inputs": 6}})
		jobs = append(jobs, run.Job{Family: "layered", Seed: seed*100000 + 80000 + int64(i), N: per / 2, P: map[string]int{"inputs": 6}})
		jobs = append(jobs, run.Job{Family: "mutual", Seed: seed*100000 + 50000 + int64(i), N: per, P: map[string]int{"inputs": 6, "maxlen": 10}})
		// hidden left recursion behind nullable prefixes of every result-list layout (zero-width alternative first / last / repeated)
		jobs = append(jobs, run.Job{Family: "hidden", Seed: seed*100000 + 55000 + int64(i), N: per / 2, P: map[string]int{"inputs": 6, "maxlen": 9}})
		// the same families with SuppressError around half of the nonterminal references (left-recursive ones included)
		// and around an eighth of the other sub-expressions: the wrapper hands results, curtailing parsers and the
		// left-recursion context through, so the grammar means what it meant
		jobs = append(jobs, run.Job{Family: "mutual", Seed: seed*100000 + 51000 + int64(i), N: per / 4, P: map[string]int{"inputs": 6, "maxlen": 10, "suppress": 1}})
		jobs = append(jobs, run.Job{Family: "hidden", Seed: seed*100000 + 54000 + int64(i), N: per / 4, P: map[string]int{"inputs": 6, "maxlen": 9, "suppress": 1}})
		jobs = append(jobs, run.Job{Family: "random", Seed: seed*100000 + 53000 + int64(i), N: per / 4, P: map[string]int{"strat": 1, "maxlen": 8, "inputs": 6, "suppress": 1}})
		// grammars over string literals (terminal.String): a literal is read more than once at one position
		jobs = append(jobs, run.Job{Family: "strings", Seed: seed*100000 + 58000 + int64(i), N: per / 4, P: map[string]int{"inputs": 6}})
		// ... and over every other typed terminal (each returns a node type of its own)
		jobs = append(jobs, run.Job{Family: "typed", Seed: seed*100000 + 59000 + int64(i), N: per / 4, P: map[string]int{"inputs": 6, "trims": 0}})
		// lists built by a hand-written combinator, cached by Memoize and extended by several consumers at one position
		jobs = append(jobs, run.Job{Family: "userlist", Seed: seed*100000 + 57000 + int64(i), N: per / 8, P: map[string]int{"inputs": 6}})
	}
	nlong := 2
	if tier == "thorough" {
		nlong = 12
	}
	for i := 0; i < 4; i++ {
		jobs = append(jobs, run.Job{Family: "long-closed-form", Seed: seed*100000 + 95000 + int64(i), N: nlong, P: map[string]int{"span": 700}})
	}
	jobs = append(jobs, enumJobs(maxNodes, false, 4, 400)...)
	extNodes := 4
	if tier == "thorough" {
		extNodes = 5
	}
	jobs = append(jobs, enumJobs(extNodes, true, 4, 400)...)
	// two mutually recursive nonterminals, exhaustively in a small scope
	if tier == "thorough" {
		jobs = append(jobs, enum2Jobs(4, 3, 8)...)
	} else {
		jobs = append(jobs, enum2Jobs(3, 3, 4)...)
	}
	return jobs
}

func init() {
	run.Register(&run.Check{
		ID:    "C01",
		Title: "Parse results equal the grammar's derivations, including left recursion",
		Plan:  c01plan,
		Exec: func(j run.Job, a *run.Acc) {
			if j.Family == "long-closed-form" {
				c01longCase(j, a)
				return
			}
			gramCases(j, func(c GCase) { c01case(c, a) })
		},
		Finish: func(tier string, a *run.Acc, cov map[string]any) string {
			cov["rule"] = "case = (grammar, input, entry nonterminal, offset); the memoized nonterminal is invoked directly and its alternatives are compared with the " +
				"reference least fixpoint: end-position sets always, tree sets when finite (<=300), every returned tree through the structural validator. " +
				"families: seed corpus, seeded random stratified grammars, mutual-left-recursion-biased grammars with inputs sampled from the grammar, " +
				"every single-nonterminal body of the small scope (<=5 nodes quick / <=7 thorough over a,b,eps,N0 with SeqOf/Any/Optional; " +
				"<=4/5 nodes with Choice/Many/SeqTry added) x every input over {a,b} up to length 4. " +
				"non-trivial = reference result non-empty AND a curtailed call or a request answered from the cache was observed by the probes; distinct = distinct case text"
			if a.Counters["judged"] == 0 {
				return "no case was judged"
			}
			if a.Counters["curtailed_calls_observed"] == 0 {
				return "no curtailment was observed"
			}
			if a.Counters["judged"]*2 < a.Counters["cases"] {
				return fmt.Sprintf("only %d of %d cases could be judged", a.Counters["judged"], a.Counters["cases"])
			}
			return ""
		},
		Assumptions: []string{
			"the reference semantics (harness/internal/refsem) is the meaning of a grammar; it is validated against hand-derived results, the LR-free differential and the mutant suite",
			"unstratified grammars (non-monotone operator over an unguarded reference into its own component) have no least-fixpoint meaning and are not judged",
			"cases exceeding the logical budgets (explosively ambiguous grammars) are counted as inconclusive, not judged",
		},
	})
}
