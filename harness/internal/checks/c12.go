package checks

import (
	"fmt"
	"math/rand"
	"strings"

	"github.com/opsidian/parsley/ast/interpreter"
	"github.com/opsidian/parsley/combinator"
	"github.com/opsidian/parsley/data"
	"github.com/opsidian/parsley/examples/json/json"
	"github.com/opsidian/parsley/parsley"
	"github.com/opsidian/parsley/text"

	"verifharness/internal/gram"
	"verifharness/internal/run"
)

// C12: parsing is invariant under the file's placement in a file set. The
// same content is parsed alone (base 1) and preceded by 1-8 random files;
// everything rendered relative to the file's base must be identical.

type c12obs struct {
	tree   string // rendering relative to the base offset
	value  string
	errTxt string // text incl. file:line:column
	errPos int    // relative; -1 if none
	absPos int    // absolute start of the root node (0 if none)
	absEnd int
	base   int
	calls  int
	panicv string
}

// c12place builds the file set. readerFirst selects the construction order NewFile -> NewReader -> AddFile
// (used by the repository's own JSON test) instead of NewFile -> AddFile -> NewReader (README order):
// both are legal and must give the same reader.
func c12place(content []byte, before [][]byte, readerFirst bool) (*parsley.FileSet, *text.File, *text.Reader) {
	fs := parsley.NewFileSet()
	if c12far > 0 && len(before) > 0 {
		fs.AddFile(gram.Filler("far", c12far, 'y')) // the placed copy lies beyond a large file (64 KiB ... 2^40 bytes)
	}
	f := gram.NewFileFrom("f", content)
	var rd *text.Reader
	if readerFirst {
		rd = text.NewReader(f)
	}
	n := 0
	for _, b := range before {
		n += len(b)
	}
	switch mode := (n + len(content)) % 3; {
	case mode == 0 || len(before) == 0 || c12far > 0:
		for i, b := range before {
			fs.AddFile(text.NewFile(fmt.Sprintf("other%d", i), b))
		}
		fs.AddFile(f)
	default:
		// the other files are handed over as a list (NewFileSet(list...)), the parsed file is added afterwards, and the
		// caller goes on using its list: a second set is built from the same list and extended (mode 1), or the list is
		// overwritten (mode 2). The first set must have its own file table.
		list := make([]parsley.File, 0, len(before)+3)
		for i, b := range before {
			list = append(list, text.NewFile(fmt.Sprintf("other%d", i), b))
		}
		if len(content)%4 == 3 {
			// all files in ONE NewFileSet call, the parsed file somewhere in the middle or at the end of the arguments
			k := (n + len(before)) % (len(list) + 1)
			args := append(append(append([]parsley.File{}, list[:k]...), f), list[k:]...)
			fs = parsley.NewFileSet(args...)
			break
		}
		fs = parsley.NewFileSet(list...)
		fs.AddFile(f)
		stranger := text.NewFile("stranger", []byte("a file of another set\nwith two lines"))
		if mode == 1 {
			fs2 := parsley.NewFileSet(list...)
			fs2.AddFile(stranger)
		} else {
			for i := range list {
				list[i] = stranger
			}
		}
	}
	if !readerFirst {
		rd = text.NewReader(f)
	}
	return fs, f, rd
}

// c12order: which construction order a placement uses (a function of the placement, so replays agree)
func c12order(before [][]byte) bool {
	n := 0
	for _, b := range before {
		n += len(b)
	}
	return n%2 == 1
}

// c12far: length of a large file that precedes the placed copy of the current case (0: none). Set per case.
var c12far int

// c12parse runs Parse (and Evaluate when eval is set) on a fresh context
func c12parse(p parsley.Parser, content []byte, before [][]byte, eval bool) (o c12obs) {
	fs, f, rd := c12place(content, before, c12order(before))
	o.base = int(f.Pos(0))
	o.errPos = -1
	// the other files of the set are in use as well: render a position in each of them before this file is parsed
	// (e.g. an earlier file failed to parse and its error was printed)
	lo := 1
	if c12far > 0 && len(before) > 0 {
		lo = c12far + 1 // (a contentless filler renders no line:column worth asking for)
	}
	for p := lo; p < o.base; p += 1 + (o.base-lo)/7 {
		_ = fs.Position(parsley.Pos(p)).String()
	}
	ctx := parsley.NewContext(fs, rd)
	defer func() {
		o.calls = ctx.CallCount()
		if e := recover(); e != nil {
			if oc, ok := e.(arithOverCap); ok {
				o.calls = oc.calls // abandoned: the caller compares call counts and reports the difference
				o.tree, o.value, o.errTxt = "", "", ""
				return
			}
			o.panicv = fmt.Sprint(e)
		}
	}()
	node, err := parsley.Parse(ctx, p)
	if err != nil {
		o.errTxt = err.Error()
	}
	if node != nil {
		o.tree = gram.Render(node, o.base)
		o.absPos, o.absEnd = int(node.Pos()), int(node.ReaderPos())
		if eval {
			v, verr := parsley.EvaluateNode(nil, node)
			if verr != nil {
				o.errTxt = fs.ErrorWithPosition(verr).Error()
			} else {
				o.value = fmt.Sprintf("%#v", v)
			}
		}
	}
	if ce := ctx.Error(); ce != nil {
		o.errPos = int(ce.Pos()) - o.base
	}
	return
}

func c12before(r *rand.Rand) [][]byte {
	n := 1 + r.Intn(8)
	out := make([][]byte, n)
	for i := range out {
		l := r.Intn(60)
		if r.Intn(4) == 0 {
			l = 0
		}
		b := make([]byte, l)
		for k := range b {
			const alphabet = "ab\n {}[]\"1\r"
			b[k] = alphabet[r.Intn(len(alphabet))]
		}
		out[i] = b
	}
	return out
}

func c12compare(a *run.Acc, family string, content string, alone, placed c12obs, extra map[string]any) bool {
	d := map[string]any{"family": family, "content": content, "base_alone": alone.base, "base_placed": placed.base}
	for k, v := range extra {
		d[k] = v
	}
	a.Count("placements compared", 1)
	if c12far > 0 {
		d["bytes_of_a_large_file_before"] = c12far
		a.Count("placements beyond a file of 64 KiB ... 2^40 bytes", 1)
	}
	switch {
	case alone.panicv != "" || placed.panicv != "":
		if alone.panicv != placed.panicv {
			d["panic_alone"], d["panic_placed"] = alone.panicv, placed.panicv
			a.Violate("panic-depends-on-placement", "panic-depends-on-placement", d)
			return false
		}
		a.Count("inconclusive:panic in both placements", 1)
		return false
	case alone.tree != placed.tree:
		d["tree_alone"], d["tree_placed"] = trunc(alone.tree, 600), trunc(placed.tree, 600)
		a.Violate("tree-differs", "tree-differs", d)
	case alone.value != placed.value:
		d["value_alone"], d["value_placed"] = alone.value, placed.value
		a.Violate("value-differs", "value-differs", d)
	case alone.errTxt != placed.errTxt:
		d["error_alone"], d["error_placed"] = alone.errTxt, placed.errTxt
		a.Violate("error-text-differs", "error-text-differs", d)
	case alone.errPos != placed.errPos:
		d["ctx_error_alone"], d["ctx_error_placed"] = alone.errPos, placed.errPos
		a.Violate("error-position-not-shifted-by-base-difference", "error-position-not-shifted-by-base-difference", d)
	case alone.tree != "" && (placed.absPos-alone.absPos != placed.base-alone.base || placed.absEnd-alone.absEnd != placed.base-alone.base):
		a.Violate("node-position-not-shifted-by-base-difference", "node-position-not-shifted-by-base-difference", d)
	case alone.calls != placed.calls:
		d["calls_alone"], d["calls_placed"] = alone.calls, placed.calls
		a.Violate("work-depends-on-placement", "work-depends-on-placement", d)
	default:
		return true
	}
	return false
}

func c12exec(j run.Job, a *run.Acc) {
	r := rand.New(rand.NewSource(j.Seed))
	jsonP := combinator.Sentence(text.Trim(json.NewParser()))
	jg := &jsonGen{r: r}
	ar := newArith()
	for it := 0; it < j.N; it++ {
		before := c12before(r)
		c12far = 0
		if r.Intn(8) == 0 {
			c12far = gram.BigOffsets[r.Intn(len(gram.BigOffsets))]
		}
		switch j.Family {
		case "json":
			doc := jg.doc(1 + r.Intn(4))
			if r.Intn(2) == 0 && len(doc) > 0 { // corrupted
				switch r.Intn(3) {
				case 0:
					doc = doc[:r.Intn(len(doc))]
				case 1:
					k := r.Intn(len(doc))
					doc = doc[:k] + string("x\n,:]\""[r.Intn(6)]) + doc[k:]
				default:
					doc += "\n  ]"
				}
			}
			if !a.Begin() {
				continue
			}
			alone := c12parse(jsonP, []byte(doc), nil, true)
			placed := c12parse(jsonP, []byte(doc), before, true)
			if c12compare(a, "json", doc, alone, placed, nil) {
				a.NonTrivial("json:" + doc + fmt.Sprint(placed.base))
				if alone.errTxt != "" {
					a.Count("json: error texts compared", 1)
					a.Sample("json error", map[string]any{"document": doc, "error": alone.errTxt, "base_placed": placed.base})
				} else {
					a.Count("json: values compared", 1)
				}
			}
		case "arith":
			g := &arithGen{r: r, maxDepth: 2 + r.Intn(4), zeroBias: []int{0, 10, 30}[r.Intn(3)], ws: c05ws}
			ast := g.expr(g.maxDepth)
			var sb strings.Builder
			g.print(ast, &sb)
			raw := sb.String()
			if r.Intn(3) == 0 && len(raw) > 0 {
				k := r.Intn(len(raw))
				raw = raw[:k] + string("+)( \n9"[r.Intn(6)]) + raw[k:]
			}
			if !a.Begin() {
				continue
			}
			alone := c12parse(ar.Root, []byte(raw), nil, true)
			arithCallCap = 20*alone.calls + 100000 // the placed run must need exactly alone.calls; far beyond that it is stopped
			placed := c12parse(ar.Root, []byte(raw), before, true)
			arithCallCap = 0
			if placed.calls > 20*alone.calls+100000 {
				a.Violate("work-depends-on-placement", "work-depends-on-placement", map[string]any{"family": "arithmetic", "content": raw, "calls_alone": alone.calls,
					"calls_placed_when_abandoned": placed.calls, "base_placed": placed.base, "bytes_of_a_large_file_before": c12far})
				continue
			}
			if c12compare(a, "arithmetic", raw, alone, placed, nil) {
				a.NonTrivial("arith:" + raw + fmt.Sprint(placed.base))
				if alone.errTxt != "" {
					a.Count("arithmetic: error texts compared", 1)
					a.Sample("arithmetic error", map[string]any{"expression": raw, "error": alone.errTxt, "base_placed": placed.base})
				} else {
					a.Count("arithmetic: values compared", 1)
				}
			}
		case "tokens":
			k := 1 + r.Intn(4)
			var toks []c10tok
			var raw strings.Builder
			for i := 0; i < k; i++ {
				kd := c10kinds[r.Intn(len(c10kinds))]
				t := c10tok{Kind: kd.kind, Text: kd.text, Left: r.Intn(5) - 1, Right: r.Intn(5) - 1, Inner: []string{"left-inside", "right-inside"}[r.Intn(2)], Trim: r.Intn(8) == 0}
				toks = append(toks, t)
				raw.WriteString(c10gap(r))
				raw.WriteString(t.Text)
			}
			raw.WriteString(c10gap(r))
			if !a.Begin() {
				continue
			}
			var ps []parsley.Parser
			for _, t := range toks {
				ps = append(ps, c10parser(t))
			}
			root := combinator.Sentence(combinator.SeqOf(ps...))
			alone := c12parse(root, []byte(raw.String()), nil, false)
			placed := c12parse(root, []byte(raw.String()), before, false)
			if c12compare(a, "trimmed tokens", raw.String(), alone, placed, map[string]any{"tokens": toks}) {
				a.NonTrivial("tok:" + raw.String() + fmt.Sprint(toks, placed.base))
				if alone.errTxt != "" {
					a.Count("tokens: error texts compared", 1)
				} else {
					a.Count("tokens: trees compared", 1)
				}
			}
		case "literals":
			raw := c08input(r, []string{"pieces", "structured"}[r.Intn(2)])
			ps := c08parsers(r)
			if !a.Begin() {
				continue
			}
			norm := c08normalise(raw)
			fs1, f1, rd1 := c12place(raw, nil, false)
			fs2, f2, rd2 := c12place(raw, before, c12order(before))
			b1, b2 := int(f1.Pos(0)), int(f2.Pos(0))
			okAll := true
			for _, l := range ps {
				for off := 0; off <= len(norm); off++ {
					one := func(fs *parsley.FileSet, f *text.File, rd *text.Reader, base int) (s string) {
						defer func() {
							if e := recover(); e != nil {
								s = "panic: " + fmt.Sprint(e)
							}
						}()
						ctx := parsley.NewContext(fs, rd)
						n, _, err := l.p.Parse(ctx, data.EmptyIntMap, f.Pos(off))
						if err != nil {
							return fmt.Sprintf("error %q @%d -> %s", err.Error(), int(err.Pos())-base, strings.TrimPrefix(fs.ErrorWithPosition(err).Error(), err.Error()))
						}
						return gram.Render(n, base)
					}
					s1, s2 := one(fs1, f1, rd1, b1), one(fs2, f2, rd2, b2)
					a.Count("literal parser calls compared", 1)
					if s1 != s2 {
						okAll = false
						a.Violate("literal-result-depends-on-placement", "literal-result-depends-on-placement", map[string]any{
							"parser": l.name, "input": fmt.Sprintf("%q", raw), "offset": off, "alone": s1, "placed": s2, "base_placed": b2})
					}
				}
			}
			if okAll && len(norm) > 0 {
				a.NonTrivial("lit:" + string(raw) + fmt.Sprint(b2))
			}
		case "grammars":
			var g *gram.Grammar
			if r.Intn(2) == 0 {
				g = gram.MutualLR(r)
			} else {
				g = gram.Random(r, gram.GenOpts{Stratified: true})
			}
			nt := r.Intn(len(g.NTs))
			in := g.RandomInput(r, nt, 8, 70)
			lens := make([]int, len(before))
			for i := range before {
				lens[i] = len(specNormalise(before[i]))
			}
			if c12far > 0 {
				lens = append([]int{c12far}, lens...)
			}
			if !a.Begin() {
				continue
			}
			one := func(bf []int) (string, string, int, string) {
				env := gram.NewEnvAt(in, bf)
				gd := gram.NewGuard(env.Base)
				gd.MaxEvents, gd.MaxCalls = 60000, 100000
				// every sequence carries the library's list interpreter: the returned trees are evaluated as well (values, and
				// the errors of trees with value-less nodes - the empty matches of Optional and Empty)
				b := gram.Build(g, &gram.Hooks{Budget: gd.LeafTick, Inside: gd.Inside, Outside: gd.Outside, Interp: interpreter.Array()})
				o := gram.Run(env, b.NTs[nt], 0)
				if o.Budget != "" {
					return "", "", 0, "budget"
				}
				if o.Bound != nil {
					return "", "", 0, "bound: " + o.Bound.String()
				}
				if o.Panic != "" {
					return "", "", 0, "panic: " + o.Panic
				}
				e := "<nil>"
				if o.Err != nil {
					e = fmt.Sprintf("%s @%d", o.Err.Error(), int(o.Err.Pos())-env.Base)
				}
				evals := ""
				for k, alt := range gram.Alternatives(o.Node) {
					if k == 3 {
						break
					}
					func() {
						defer func() {
							if r := recover(); r != nil {
								evals += fmt.Sprintf(" | panic: %v", r)
							}
						}()
						v, verr := parsley.EvaluateNode(nil, alt)
						if verr != nil {
							evals += " | error: " + env.FS.ErrorWithPosition(verr).Error()
						} else {
							evals += fmt.Sprintf(" | %v", v)
						}
					}()
				}
				return gram.Render(o.Node, env.Base) + evals, e, o.Calls, ""
			}
			t1, e1, c1, ab1 := one(nil)
			t2, e2, c2, ab2 := one(lens)
			a.Count("placements compared", 1)
			if ab1 == "budget" || ab2 == "budget" {
				if ab1 != ab2 {
					a.Violate("work-depends-on-placement", "work-depends-on-placement", map[string]any{"grammar": g.String(), "input": in, "alone": ab1, "placed": ab2})
				} else {
					a.Count("inconclusive:budget", 1)
				}
				continue
			}
			if t1 != t2 || e1 != e2 || c1 != c2 || ab1 != ab2 {
				a.Violate("grammar-result-depends-on-placement", "grammar-result-depends-on-placement", map[string]any{
					"grammar": g.String(), "input": in, "entry": nt, "alone": trunc(t1, 400) + " " + e1 + " " + ab1, "placed": trunc(t2, 400) + " " + e2 + " " + ab2,
					"calls_alone": c1, "calls_placed": c2, "files_before": lens})
				continue
			}
			if g.LeftRecursive() && t1 != "<nil>" {
				a.NonTrivial("gram:" + g.String() + in + fmt.Sprint(lens))
				a.Count("left-recursive grammar results compared", 1)
			}
		}
	}
}

func init() {
	run.Register(&run.Check{
		ID:    "C12",
		Title: "Parsing is invariant under the file's placement in a file set",
		Plan: func(tier string, seed int64) []run.Job {
			var jobs []run.Job
			n, per := 16, 800
			if tier == "thorough" {
				n, per = 32, 4000
			}
			for i := 0; i < n; i++ {
				jobs = append(jobs, run.Job{Family: "json", Seed: seed*100000 + int64(i), N: per})
				jobs = append(jobs, run.Job{Family: "arith", Seed: seed*100000 + 10000 + int64(i), N: per / 2})
				jobs = append(jobs, run.Job{Family: "tokens", Seed: seed*100000 + 20000 + int64(i), N: per * 2})
				jobs = append(jobs, run.Job{Family: "literals", Seed: seed*100000 + 30000 + int64(i), N: per / 3})
				jobs = append(jobs, run.Job{Family: "grammars", Seed: seed*100000 + 40000 + int64(i), N: per})
			}
			return jobs
		},
		Exec: c12exec,
		Finish: func(tier string, a *run.Acc, cov map[string]any) string {
			cov["rule"] = "case = one content parsed twice with fresh contexts: alone in its file set (base 1) and preceded by 1-8 random files (lengths 0-59, CR/LF/CRLF inside; added one by one, or handed over as a list that the caller then reuses for a second set or overwrites), one case in 8 beyond an additional file of 64 KiB ... 2^40 bytes (real up to 2 MiB, contentless parsley.File beyond). " +
				"Workloads: JSON example (valid and corrupted documents, Evaluate), left-recursive arithmetic (values and division-by-zero errors), trimmed token sequences, every literal parser at every offset, " +
				"random and mutual-left-recursive grammars (curtailment uses Remaining; their trees are evaluated with interpreter.Array, values and evaluation errors included in the comparison). Compared: tree rendering relative to the base, values, full error texts (file:line:column), context error position relative to the base, " +
				"absolute root positions shifted by exactly the base difference, and CallCount. non-trivial = a comparison that ran to completion on a non-empty content; distinct = (content, placement)"
			for _, k := range []string{"json: values compared", "json: error texts compared", "arithmetic: values compared", "tokens: trees compared", "literal parser calls compared", "left-recursive grammar results compared"} {
				if a.Counters[k] == 0 {
					return "workload not reached: " + k
				}
			}
			return ""
		},
		Assumptions: []string{"the parse of the file placed alone is the oracle for the parse of the same file placed elsewhere"},
	})
}
