package checks

import (
	"fmt"
	"strings"

	"github.com/opsidian/parsley/ast"

	"verifharness/internal/gram"
	"verifharness/internal/refsem"
	"verifharness/internal/run"
)

// C04: Parse yields a node or an error, never neither; Evaluate never panics;
// Sentence succeeds exactly when some parse consumes the whole input.

func c04case(c GCase, a *run.Acc, variant int) {
	if !a.Begin() {
		return
	}
	g := c.G
	c.Pos = 0
	a.Count("cases", 1)
	o := sentenceOpts{
		Named:       variant&1 == 1,
		NameSeqs:    variant&2 == 2 && variant&1 == 1,
		ExplicitEnd: variant&4 == 4,
		Evaluate:    variant&8 == 8,
		NoSentence:  variant&16 == 16,
	}
	o.Before = c.Before()
	o.Transform = run.Hash(c.Key())%4 == 0
	if o.Transform {
		a.Count("cases parsed with transformation switched on", 1)
	}
	lrFree := !g.LeftRecursive()
	if variant&32 == 32 && lrFree {
		o.NoMemo = true
	}
	vdesc := fmt.Sprintf("named=%v nameSeqs=%v explicitEnd=%v evaluate=%v sentence=%v memo=%v", o.Named, o.NameSeqs, o.ExplicitEnd, o.Evaluate, !o.NoSentence, !o.NoMemo)
	r := runSentence(c, o)
	a.Count("probe_events", int64(r.Guard.Events))
	d := c.Describe()
	d["variant"] = vdesc
	switch {
	case r.Budget != "":
		a.Count("inconclusive:budget ("+r.Budget+")", 1)
		return
	case r.Bound != nil:
		// the activation bound is C02's property; without a result nothing can be judged here
		a.Count("inconclusive:activation bound exceeded (judged by C02)", 1)
		return
	case r.Panic != "":
		d["panic"] = r.Panic
		kind := "panic-in-parse"
		if o.Evaluate {
			kind = "panic-in-evaluate"
		}
		a.Violate(kind, kind, d)
		return
	}
	a.Count("returned", 1)
	hasNode := r.Node != nil
	if o.Evaluate {
		// a nil value is a legal value; the parse succeeded unless the error is a parse error
		// (an interpreter may legitimately fail, e.g. "node does not have a value" for an EMPTY root)
		hasNode = r.Err == nil || !strings.HasPrefix(r.Err.Error(), "failed to parse the input")
		if r.Err != nil && hasNode {
			a.Count("evaluation errors after a successful parse", 1)
		}
		a.Count("evaluate calls", 1)
	}
	if !o.Evaluate {
		if r.Node == nil && r.Err == nil {
			a.Violate("neither", "neither", d)
			return
		}
		if r.Node != nil && r.Err != nil {
			d["error"] = r.Err.Error()
			a.Violate("both", "both", d)
			return
		}
	}
	if r.Err != nil && !(o.Evaluate && hasNode) {
		a.Count("failed parses (error path)", 1)
		if r.Err.Error() == "" {
			a.Violate("empty-error", "empty-error", d)
			return
		}
	} else {
		a.Count("successful parses", 1)
	}
	nontrivial := r.Err != nil || len(c.In) > 0
	if o.NoSentence {
		if nontrivial {
			a.NonTrivial(c.Key() + vdesc)
		}
		return
	}
	// acceptance against the reference: only where a least-fixpoint meaning exists
	if !g.RefModelled() {
		a.Count("totality only (grammar with RightTrim / Single / SuppressError wrappers: no reference semantics)", 1)
		if nontrivial {
			a.NonTrivial(c.Key() + vdesc)
		}
		return
	}
	if _, _, ok := g.Strata(); !ok {
		a.Count("totality only (unstratified grammar)", 1)
		if nontrivial {
			a.NonTrivial(c.Key() + vdesc)
		}
		return
	}
	rfe := &refsem.Ref{G: g, In: c.In, EndsOnly: true, Cap: 100000}
	if !rfe.Compute() {
		a.Count("inconclusive:reference budget", 1)
		return
	}
	if rfe.Grey {
		a.Count("inconclusive:a typed terminal met a spelling its documented syntax is silent about", 1)
		return
	}
	accepts := false
	for _, e := range rfe.Ends(c.NT, 0) {
		if e == len(c.In) {
			accepts = true
		}
	}
	a.Count("acceptance judged against the reference", 1)
	d["reference_accepts"] = accepts
	if r.Err != nil {
		d["error"] = r.Err.Error()
	}
	if accepts != hasNode {
		kind := "accepts-but-no-full-parse"
		if accepts {
			kind = "rejects-although-a-full-parse-exists"
		}
		a.Violate(kind, kind, d)
		return
	}
	if accepts {
		a.Count("accepted whole-input parses", 1)
	}
	if r.Node != nil && !o.Evaluate && !g.HasExtendedOps() {
		// the returned tree starts at the first byte and ends at end of input (grammars with LeftTrim are judged on
		// acceptance only: a left-trimmed first token keeps its own start, after the leading whitespace - C10's rule)
		base := r.Env.Base
		if int(r.Node.Pos())-base != 0 || int(r.Node.ReaderPos())-base != len(c.In) {
			d["root"] = gram.Render(r.Node, base)
			a.Violate("root-span", "root-span", d)
			return
		}
		nt, ok := r.Node.(*ast.NonTerminalNode)
		if !ok || len(nt.Children()) != 2 || nt.Children()[1].Token() != "EOF" {
			d["root"] = gram.Render(r.Node, base)
			a.Violate("root-shape", "root-shape", d)
			return
		}
		v := &refsem.Validator{Ends: rfe, Base: base}
		if !v.Valid(nt.Children()[0], g.NTs[c.NT], 0) && v.Steps <= 200000 {
			d["root"] = gram.Render(r.Node, base)
			d["why"] = v.Why
			a.Violate("root-not-a-derivation", "root-not-a-derivation", d)
			return
		}
		a.Count("root trees validated", 1)
	}
	if nontrivial {
		a.NonTrivial(c.Key() + vdesc)
		cls := "accepted"
		if r.Err != nil {
			cls = "rejected"
			d["error"] = r.Err.Error()
		}
		a.Sample(cls+"/"+famClass(c.Fam), d)
	}
}

func c04plan(tier string, seed int64) []run.Job {
	var jobs []run.Job
	jobs = append(jobs, run.Job{Family: "corpus"})
	nr, per := 16, 320
	maxNodes := 4
	if tier == "thorough" {
		nr, per, maxNodes = 64, 1200, 6
	}
	for i := 0; i < nr; i++ {
		jobs = append(jobs, run.Job{Family: "random", Seed: seed*100000 + int64(i), N: per, P: map[string]int{"strat": 1, "maxlen": 8, "inputs": 6}})
		jobs = append(jobs, run.Job{Family: "random", Seed: seed*100000 + 10000 + int64(i), N: per / 2, P: map[string]int{"strat": 0, "maxlen": 8, "inputs": 6}})
		jobs = append(jobs, run.Job{Family: "random", Seed: seed*100000 + 20000 + int64(i), N: per / 2, P: map[string]int{"strat": 1, "lrfree": 1, "maxlen": 8, "inputs": 6}})
		jobs = append(jobs, run.Job{Family: "mutual", Seed: seed*100000 + 50000 + int64(i), N: per / 2, P: map[string]int{"inputs": 6, "maxlen": 10}})
		// hidden left recursion behind nullable prefixes of every result-list layout (zero-width alternative first / last / repeated)
		jobs = append(jobs, run.Job{Family: "hidden", Seed: seed*100000 + 55000 + int64(i), N: per / 4, P: map[string]int{"inputs": 6, "maxlen": 9}})
		jobs = append(jobs, run.Job{Family: "strings", Seed: seed*100000 + 58000 + int64(i), N: per / 4, P: map[string]int{"inputs": 6}})
		// token-level grammars over the typed terminals (integer, float, bool, nil, char, duration, word, regexp), every
		// token trimmed one way or another, whitespace in front of the end of input
		jobs = append(jobs, run.Job{Family: "typed", Seed: seed*100000 + 59000 + int64(i), N: per / 2, P: map[string]int{"inputs": 6}})
		// SuppressError around half of the references and an eighth of the other sub-expressions: acceptance is unchanged by it
		jobs = append(jobs, run.Job{Family: "mutual", Seed: seed*100000 + 51000 + int64(i), N: per / 4, P: map[string]int{"inputs": 6, "maxlen": 10, "suppress": 1}})
		jobs = append(jobs, run.Job{Family: "random", Seed: seed*100000 + 53000 + int64(i), N: per / 4, P: map[string]int{"strat": 1, "maxlen": 8, "inputs": 6, "suppress": 1}})
		// ... with zero-width marker nodes of the user's own (Pos() == NilPos) among the nullable prefixes
		jobs = append(jobs, run.Job{Family: "hidden", Seed: seed*100000 + 56000 + int64(i), N: per / 4, P: map[string]int{"inputs": 6, "maxlen": 9, "marks": 1}})
		jobs = append(jobs, run.Job{Family: "random", Seed: seed*100000 + 80000 + int64(i), N: per / 4, P: map[string]int{"strat": 1, "maxlen": 8, "inputs": 6, "ends": 1, "memoexpr": 0}})
		// LeftTrim (all four whitespace modes) and End leaves have a reference meaning: acceptance is judged
		jobs = append(jobs, run.Job{Family: "random", Seed: seed*100000 + 85000 + int64(i), N: per / 2, P: map[string]int{"strat": 1, "maxlen": 8, "inputs": 6, "trims": 1, "lefttrims": 1, "ends": 1, "memoexpr": 0}})
		// token-level sequences in which trimming meets optional and alternative tokens (empty matches and tokens on
		// either side of a whitespace run in one result list)
		jobs = append(jobs, run.Job{Family: "trimseq", Seed: seed*100000 + 88000 + int64(i), N: per / 2, P: map[string]int{"inputs": 6}})
		// ... and RightTrim in its never-failing mode around operands that return fresh nodes (several alternatives of different length, Optional)
		jobs = append(jobs, run.Job{Family: "random", Seed: seed*100000 + 87000 + int64(i), N: per / 2, P: map[string]int{"strat": 1, "maxlen": 8, "inputs": 6, "trims": 1, "lefttrims": 1, "rtrimfresh": 1, "memoexpr": 0}})
		jobs = append(jobs, run.Job{Family: "random", Seed: seed*100000 + 70000 + int64(i), N: per / 4, P: map[string]int{"strat": 0, "maxlen": 8, "inputs": 6, "trims": 1, "memoexpr": 0}})
	}
	jobs = append(jobs, enumJobs(maxNodes, false, 4, 300)...)
	jobs = append(jobs, enumJobs(maxNodes, true, 3, 300)...)
	return jobs
}

func init() {
	run.Register(&run.Check{
		ID:    "C04",
		Title: "Parse yields a node or an error, never neither; Sentence means whole input",
		Plan:  c04plan,
		Exec: func(j run.Job, a *run.Acc) {
			n := 0
			gramCases(j, func(c GCase) {
				// the variant (named/unnamed, explicit End, Evaluate, bare root, plain) is a function of the case number
				h := run.Hash(fmt.Sprintf("%d/%d", j.Seed, n))
				n++
				c04case(c, a, int(h%64))
				if j.Family == "corpus" || j.Family == "enum" {
					c04case(c, a, int((h>>8)%64)|8) // the same case through Evaluate
				}
			})
		},
		Finish: func(tier string, a *run.Acc, cov map[string]any) string {
			cov["rule"] = "case = (grammar, input, entry nonterminal, variant) where variant chooses named/unnamed alternatives, combinator.Sentence or an equivalent " +
				"SeqOf(root, End), Parse or Evaluate (a concatenating interpreter is bound to every sequence), the bare nonterminal as root, and plain (no Memoize) builds of " +
				"LR-free grammars. Oracle: exactly one of node/error; no panic; for Sentence roots of stratified grammars success iff the reference derives a parse ending " +
				"at EOF, and the returned root spans [0, len] and its first child passes the structural validator. " +
				"non-trivial = the parse failed (error path) or a non-empty input was accepted; distinct = case text + variant"
			if a.Counters["returned"] == 0 {
				return "no case returned"
			}
			if a.Counters["failed parses (error path)"] == 0 || a.Counters["accepted whole-input parses"] == 0 {
				return "the workload did not reach both the failing and the accepting path"
			}
			if a.Counters["evaluate calls"] == 0 {
				return "Evaluate was never called"
			}
			return ""
		},
		Assumptions: []string{
			"acceptance is judged against harness/internal/refsem for stratified grammars only; unstratified grammars are checked for totality only",
			"budget-exceeding cases are inconclusive",
		},
	})
}
