package checks

import (
	"fmt"
	"math/rand"
	"os"
	"path/filepath"
	"strings"

	"github.com/opsidian/parsley/data"
	"github.com/opsidian/parsley/parsley"
	"github.com/opsidian/parsley/text"
	"github.com/opsidian/parsley/text/terminal"

	"verifharness/internal/gram"
	"verifharness/internal/run"
)

// C11: global positions map one-to-one onto file, line and column. Independent
// layout (base_0 = 1, base_{i+1} = base_i + len_i + 1) and line/column by
// counting line feeds in the independently normalised content.

// (form feed, vertical tab, tab, NUL and the Unicode line / paragraph separators and NEL are ordinary characters of a
// line: only a line feed - after CRLF normalisation - starts a new one)
var c11alpha = []string{"a", "b", "\n", "\r", "\r\n", " ", "é", "😀", "\n\n", "\r\r\n", "x", "\f", "\t", "\v", "\x00", "\u2028", "\u2029", "\u0085", "\f\n", "a\fb", "\ufeff"}

// custom parsley.File implementations of the user: value types (FileSet.AddFile takes the interface). c11genFile is a
// comparable value - two generated chunks with the same name and length are EQUAL Go values -, c11tableFile carries a
// slice and cannot be compared at all. Neither needs its offset: the set hands Position the offset inside the file.
type c11genFile struct {
	name string
	n    int
}

func (f c11genFile) Position(off int) parsley.Position {
	if off < 0 || off > f.n {
		return parsley.NilPosition
	}
	return c11pos(fmt.Sprintf("%s@%d", f.name, off))
}
func (f c11genFile) Pos(off int) parsley.Pos { return parsley.Pos(off) }
func (f c11genFile) Len() int                { return f.n }
func (f c11genFile) SetOffset(int)           {}

type c11tableFile struct {
	name  string
	lines []int
	n     int
}

func (f c11tableFile) Position(off int) parsley.Position {
	if off < 0 || off > f.n {
		return parsley.NilPosition
	}
	return c11pos(fmt.Sprintf("%s@%d", f.name, off))
}
func (f c11tableFile) Pos(off int) parsley.Pos { return parsley.Pos(off) }
func (f c11tableFile) Len() int                { return f.n }
func (f c11tableFile) SetOffset(int)           {}

type c11pos string

func (p c11pos) String() string { return string(p) }

// c11custom: sets that mix text.File with the user's own File values. Oracle: the same layout rule (base_0 = 1,
// base_{i+1} = base_i + len_i + 1) whatever the files are; every global position must be handed to the file that owns
// it with the right offset inside it.
func c11custom(j run.Job, a *run.Acc) {
	r := rand.New(rand.NewSource(j.Seed))
	for it := 0; it < j.N; it++ {
		k := 2 + r.Intn(6)
		type ent struct {
			f    parsley.File
			n    int
			want func(off int) string
		}
		var ents []ent
		var descr []string
		for i := 0; i < k; i++ {
			switch r.Intn(4) {
			case 0, 1:
				var b []byte
				for n := r.Intn(8); n > 0; n-- {
					b = append(b, c11alpha[r.Intn(len(c11alpha))]...)
				}
				c := specNormalise(b)
				name := fmt.Sprintf("t%d", i)
				ents = append(ents, ent{gram.NewFileFrom(name, b), len(c), func(off int) string {
					l, col := lineCol(string(c), off)
					return fmt.Sprintf("%s:%d:%d", name, l, col)
				}})
				descr = append(descr, fmt.Sprintf("text %q", b))
			case 2:
				// generated chunks: few names and lengths, so equal values are common
				f := c11genFile{[]string{"<generated>", "<macro>"}[r.Intn(2)], r.Intn(4)}
				ents = append(ents, ent{f, f.n, func(off int) string { return fmt.Sprintf("%s@%d", f.name, off) }})
				descr = append(descr, fmt.Sprintf("gen %s/%d", f.name, f.n))
			default:
				n := r.Intn(5)
				f := c11tableFile{fmt.Sprintf("<table%d>", r.Intn(2)), []int{0, n}, n}
				ents = append(ents, ent{f, n, func(off int) string { return fmt.Sprintf("%s@%d", f.name, off) }})
				descr = append(descr, fmt.Sprintf("table %s/%d", f.name, n))
			}
		}
		if !a.Begin() {
			continue
		}
		a.Count("file sets that mix text.File with the user's own File values", 1)
		d := map[string]any{"files": descr}
		var fs *parsley.FileSet
		pan := func() (p string) {
			defer func() {
				if e := recover(); e != nil {
					p = fmt.Sprint(e)
				}
			}()
			if it%2 == 0 {
				var fl []parsley.File
				for _, e := range ents {
					fl = append(fl, e.f)
				}
				fs = parsley.NewFileSet(fl...)
			} else {
				fs = parsley.NewFileSet()
				for _, e := range ents {
					fs.AddFile(e.f)
				}
			}
			return ""
		}()
		if pan != "" {
			d["panic"] = pan
			a.Violate("panic", "panic", d)
			continue
		}
		pos := 1
		ok := true
		for i, e := range ents {
			for off := 0; off <= e.n && ok; off++ {
				got := fs.Position(parsley.Pos(pos + off)).String()
				a.Count("global positions queried", 1)
				if want := e.want(off); got != want {
					d["file_index"], d["global_pos"], d["got"], d["want"] = i, pos+off, got, want
					a.Violate("FileSet.Position", "FileSet.Position", d)
					ok = false
				}
			}
			pos += e.n + 1
		}
		for p := pos; p < pos+3 && ok; p++ {
			if got := fs.Position(parsley.Pos(p)).String(); got != "unknown" {
				d["global_pos"], d["got"], d["want"] = p, got, "unknown"
				a.Violate("FileSet.Position", "FileSet.Position", d)
				ok = false
			}
		}
		if ok {
			a.NonTrivial(strings.Join(descr, "|"))
		}
	}
}

func c11exec(j run.Job, a *run.Acc) {
	if j.Family == "custom-files" {
		c11custom(j, a)
		return
	}
	r := rand.New(rand.NewSource(j.Seed))
	for it := 0; it < j.N; it++ {
		k := r.Intn(7)
		// scale: one set in 90 has many files (the table of a set crosses 16, 32, 64, 256 entries), one in 90 contains a
		// long file (hundreds to 70000 bytes: thousands of lines, or lines thousands of columns long)
		scale := r.Intn(90)
		if scale >= 3 {
			scale = scale%2 + 2
		}
		if scale == 0 {
			k = []int{15, 16, 17, 18, 31, 33, 40, 64, 65, 100, 255, 257, 300}[r.Intn(13)]
		}
		longAt := -1
		if scale == 1 && k > 0 {
			longAt = r.Intn(k)
		}
		var raws [][]byte
		strFile, strAt := -1, -1
		for i := 0; i < k; i++ {
			var b []byte
			if r.Intn(5) != 0 { // empty files are common
				for n := r.Intn(12); n > 0; n-- {
					b = append(b, c11alpha[r.Intn(len(c11alpha))]...)
				}
			}
			if i == longAt {
				n := []int{300, 300, 300, 1000, 1000, 5000}[r.Intn(6)]
				if r.Intn(40) == 0 {
					n = 70000
				}
				lineEvery := []int{1, 2, 7, 300, 5000, 1 << 30}[r.Intn(6)]
				for q := 0; q < n; q++ {
					if q%lineEvery == lineEvery-1 {
						b = append(b, []string{"\n", "\r\n", "\n", "\r"}[r.Intn(4)]...)
					} else {
						b = append(b, c11alpha[r.Intn(len(c11alpha))]...)
					}
				}
			}
			if strAt < 0 && r.Intn(16) == 0 {
				// the file holds a string literal with escapes, and it is PARSED (terminal.String at that offset) before any
				// position is asked for: parsing reads a file, it must not change what its positions mean
				strFile, strAt = i, len(specNormalise(b))
				b = append(append(b, `"one\ntwo\tx"`...), "\nb"...)
			}
			raws = append(raws, b)
		}
		incremental := r.Intn(2) == 0
		if !a.Begin() {
			continue
		}
		var files []*text.File
		var readers []*text.Reader
		var fs *parsley.FileSet
		if incremental {
			fs = parsley.NewFileSet()
		}
		var pf []parsley.File
		unnamed := -1 // at most one file of the set has an empty name: its positions render as "line:column"
		if len(raws) > 0 && len(raws)%3 == 0 {
			unnamed = len(raws) / 2
		}
		diskName := map[int]string{}
		nameOf := func(i int) string {
			if i == unnamed {
				return ""
			}
			return fmt.Sprintf("f%d", i)
		}
		// a fifth of the sets are made of File objects that were placed in another set (at other offsets) before:
		// a document set rebuilt from the same File objects
		var earlierSet *parsley.FileSet
		if len(raws) > 0 && run.Hash(fmt.Sprint(raws))%5 == 0 {
			earlierSet = parsley.NewFileSet(text.NewFile("earlier", []byte("seven b")))
			a.Count("file sets made of File objects that were in another set before", 1)
		}
		for i, b := range raws {
			// the caller's buffer is reused right after NewFile (a scratch buffer through which several sources are loaded):
			// the file must have its own copy - line and column are computed later, lazily or not
			mine := append([]byte{}, b...)
			f := text.NewFile(nameOf(i), mine)
			if i != unnamed && run.Hash(fmt.Sprint(i, len(raws), string(b)))%48 == 0 {
				// one file in 48 is a file on disk, loaded with text.ReadFile (its name is its path) - half of them start
				// with the bytes EF BB BF, which are three bytes of content like any others: every byte of the file has a position
				if dir, derr := os.MkdirTemp(run.OutRoot(), "c11-readfile-"); derr == nil {
					if run.Hash(string(b))%2 == 0 {
						b = append([]byte("\xef\xbb\xbf"), b...)
						raws[i] = b
					}
					path := filepath.Join(dir, fmt.Sprintf("f%d", i))
					if os.WriteFile(path, b, 0o644) == nil {
						lf, rerr := text.ReadFile(path)
						if rerr != nil || lf == nil {
							a.Violate("ReadFile", "ReadFile-fails-on-a-readable-file", map[string]any{"bytes": len(b), "error": fmt.Sprint(rerr)})
						} else {
							f = lf
							diskName[i] = path
							a.Count("files loaded from disk with text.ReadFile", 1)
						}
					}
					os.RemoveAll(dir)
				}
			}
			for q := range mine {
				if q%2 == 0 {
					mine[q] = '\n'
				} else {
					mine[q] ^= 0x5a
				}
			}
			if earlierSet != nil {
				earlierSet.AddFile(f)
			}
			files = append(files, f)
			pf = append(pf, f)
			// a reader for every second file is created BEFORE the file joins the set, the others afterwards: both are legal,
			// and a reader's global positions must be those of its file in the set
			if i%2 == 0 {
				readers = append(readers, text.NewReader(f))
			} else {
				readers = append(readers, nil)
			}
			if incremental {
				fs.AddFile(f)
			}
		}
		if !incremental {
			// the caller's slice has spare capacity and the caller goes on using it: the set must have its own file table
			callers := make([]parsley.File, len(pf), len(pf)+4)
			copy(callers, pf)
			fs = parsley.NewFileSet(callers...)
			if len(raws) > 0 && len(raws)%2 == 0 {
				extra := text.NewFile(fmt.Sprintf("f%d", len(raws)), []byte("extra\nfile"))
				fs.AddFile(extra)
				files = append(files, extra)
				raws = append(raws, []byte("extra\nfile"))
			}
			stranger := text.NewFile("stranger", []byte("not in the set"))
			callers = append(callers, stranger, stranger)
			for i := range callers[:len(pf)] {
				callers[i] = stranger
			}
		}
		desc := func(extra map[string]any) map[string]any {
			var cs []string
			for _, b := range raws {
				cs = append(cs, fmt.Sprintf("%q", b))
			}
			m := map[string]any{"files": cs}
			for k, v := range extra {
				m[k] = v
			}
			return m
		}
		a.Count("file sets", 1)
		if strFile >= 0 && strFile < len(files) {
			func() {
				defer func() { recover() }()
				f := files[strFile]
				ctx := parsley.NewContext(fs, text.NewReader(f))
				n, _, _ := terminal.String(nil, false).Parse(ctx, data.EmptyIntMap, f.Pos(strAt))
				if n != nil {
					a.Count("file sets in which a string literal with escapes was parsed before the lookups", 1)
				}
			}()
		}
		if scale == 0 {
			a.Count("file sets with 15-300 files", 1)
		}
		if longAt >= 0 {
			a.Count("file sets with a long file (300-70000 pieces)", 1)
			a.SetMax("bytes of one file", int64(len(raws[longAt])))
		}
		a.SetMax("files in one set", int64(len(raws)))
		exp := map[int]string{}
		owner := map[int]int{}
		pos := 1
		for i, raw := range raws {
			c := specNormalise(raw)
			if int(files[i].Pos(0)) != pos {
				a.Violate("base-offset", "base-offset", desc(map[string]any{"file": i, "got": int(files[i].Pos(0)), "want": pos}))
			}
			if files[i].Len() != len(c) {
				a.Violate("file-length", "file-length", desc(map[string]any{"file": i, "got": files[i].Len(), "want": len(c)}))
			}
			line, col := 1, 1
			for off := 0; off <= len(c); off++ {
				want := fmt.Sprintf("f%d:%d:%d", i, line, col)
				if dn, ok := diskName[i]; ok {
					want = fmt.Sprintf("%s:%d:%d", dn, line, col)
				}
				if i == unnamed {
					want = fmt.Sprintf("%d:%d", line, col)
				}
				if prev, dup := exp[pos+off]; dup {
					a.Violate("oracle-overlap", "oracle-overlap", desc(map[string]any{"pos": pos + off, "a": prev, "b": want}))
				}
				exp[pos+off] = want
				owner[pos+off] = i
				// direct File accessors
				if got := int(files[i].Pos(off)); got != pos+off {
					a.Violate("File.Pos", "File.Pos", desc(map[string]any{"file": i, "offset": off, "got": got, "want": pos + off}))
				}
				if got := files[i].Position(off).String(); got != want {
					a.Violate("File.Position", "File.Position", desc(map[string]any{"file": i, "offset": off, "got": got, "want": want}))
				}
				a.Count("file offsets checked directly", 1)
				if off < len(c) {
					if c[off] == '\n' {
						a.SetMax("lines of one file", int64(line+1))
						line++
						col = 1
					} else {
						col++
					}
				}
			}
			// the file's reader (created before or after the file joined the set) hands out the same global positions
			if i < len(readers) {
				rd := readers[i]
				if rd == nil {
					rd = text.NewReader(files[i])
				}
				for _, off := range []int{0, len(c) / 2, len(c)} {
					if got := int(rd.Pos(off)); got != pos+off {
						a.Violate("Reader.Pos", "Reader.Pos", desc(map[string]any{"file": i, "offset": off, "got": got, "want": pos + off, "reader_created_before_the_file_joined_the_set": readers[i] != nil}))
						break
					}
				}
				a.Count("reader positions checked", 3)
			}
			// beyond the file's EOF position the file itself must say unknown
			if got := files[i].Position(len(c) + 1).String(); got != "unknown" {
				a.Violate("File.Position-beyond-EOF", "File.Position-beyond-EOF", desc(map[string]any{"file": i, "offset": len(c) + 1, "got": got}))
			}
			pos += len(c) + 1
		}
		seen := map[string]int{}
		// the order in which positions are looked up must not matter: ascending, descending and shuffled sweeps
		order := make([]int, 0, 3*(pos+3))
		for p := 0; p < pos+3; p++ {
			order = append(order, p)
		}
		for p := pos + 2; p >= 0; p-- {
			order = append(order, p)
		}
		sh := rand.New(rand.NewSource(int64(pos)*7919 + int64(len(raws))))
		for _, p := range sh.Perm(pos + 3) {
			order = append(order, p)
		}
		type heldPos struct {
			p    int
			obj  parsley.Position
			want string
		}
		var held []heldPos
		for qi, p := range order {
			a.Count("global positions queried", 1)
			got := func() (s string) {
				defer func() {
					if r := recover(); r != nil {
						s = fmt.Sprint("PANIC ", r)
					}
				}()
				obj := fs.Position(parsley.Pos(p))
				s = obj.String()
				if len(held) < 400 {
					held = append(held, heldPos{p, obj, s})
				}
				return s
			}()
			want, ok := exp[p]
			if !ok {
				want = "unknown"
				a.Count("out-of-range positions queried", 1)
			}
			if got != want {
				a.Violate("FileSet.Position", "FileSet.Position", desc(map[string]any{"global_pos": p, "got": got, "want": want}))
			}
			if ok && qi < pos+3 {
				if q, dup := seen[got]; dup {
					a.Violate("not-injective", "not-injective", desc(map[string]any{"positions": []int{q, p}, "both_render_as": got}))
				}
				seen[got] = p
			}
		}
		// a Position handed out earlier must still read the same after all the later lookups
		for _, h := range held {
			if now := h.obj.String(); now != h.want {
				a.Violate("position-object-changed-after-later-lookups", "position-object-changed-after-later-lookups", desc(map[string]any{"global_pos": h.p, "was": h.want, "now": now}))
				break
			}
		}
		a.Count("position objects re-read after all lookups", int64(len(held)))
		if k >= 2 {
			a.NonTrivial(fmt.Sprintf("%q", raws))
			a.Sample("file set", desc(map[string]any{"positions": pos + 2}))
		}
	}
}

func init() {
	run.Register(&run.Check{
		ID:    "C11",
		Title: "Global positions map one-to-one onto file, line and column",
		Plan: func(tier string, seed int64) []run.Job {
			var jobs []run.Job
			n, per := 32, 5000
			if tier == "thorough" {
				n, per = 128, 30000
			}
			for i := 0; i < n; i++ {
				jobs = append(jobs, run.Job{Family: "filesets", Seed: seed*100000 + int64(i), N: per})
				jobs = append(jobs, run.Job{Family: "custom-files", Seed: seed*100000 + 50000 + int64(i), N: per / 10})
			}
			return jobs
		},
		Exec: c11exec,
		Finish: func(tier string, a *run.Acc, cov map[string]any) string {
			cov["rule"] = "family custom-files: sets of 2-7 files that mix text.File with value-type File implementations of the user (equal values, non-comparable values), every global position compared with the same layout rule. case = a file set of 0-6 files (each created from a caller buffer that is overwritten right after NewFile), one set in 90 of 15-300 files, one in 90 with a file of 300-70000 pieces (up to tens of thousands of lines, or lines thousands of columns long) (empty files, LF, lone CR, CRLF, CR CR LF, multi-byte runes, no trailing newline), built with NewFileSet(files...) or AddFile, a fifth of them from File objects that were placed in another set before. " +
				"Oracle: independent layout base_0=1, base_{i+1}=base_i+len_i+1 on the independently CRLF-normalised content, line/column by counting LFs. Every global position 0..last+3 is queried " +
				"(name:line:col expected, 'unknown' for 0 and for everything past the last file's EOF position; every EOF position belongs to its file), all renderings of distinct (file, offset) must be distinct; " +
				"File.Pos, File.Len, File.Position are checked directly for every offset, Reader.Pos (readers created before / after the file joined the set) at three offsets per file. non-trivial = at least two files; distinct = distinct file contents"
			if a.Counters["global positions queried"] == 0 {
				return "nothing was queried"
			}
			return ""
		},
		Assumptions: []string{"negative global positions are outside the statement ('0 or anything past the last file') and are not queried"},
	})
}
