package checks

import (
	"fmt"
	"io"
	"math/rand"
	"os"
	"path/filepath"
	"runtime"
	"sort"
	"strings"
	"sync"
	"sync/atomic"
	"time"

	"github.com/anishathalye/porcupine"
	"github.com/opsidian/parsley/combinator"
	"github.com/opsidian/parsley/data"
	"github.com/opsidian/parsley/examples/json/json"
	"github.com/opsidian/parsley/parser"
	"github.com/opsidian/parsley/parsley"
	"github.com/opsidian/parsley/text"
	"github.com/opsidian/parsley/text/terminal"

	"verifharness/internal/gram"
	"verifharness/internal/run"
)

// C14: a parser graph can be shared by concurrent parses. Instruments: the Go
// race detector (this check runs in the -race build), a differential against
// the same parse executed alone, and porcupine on the history of concurrent
// Memoize constructions (parser index allocation = fetch-and-increment).

type c14input struct {
	text string
	want string // rendering of the outcome when executed alone
}

type c14graph struct {
	name string
	// build constructs a FRESH instance of the graph. The expected outcomes are computed on one private
	// instance and every concurrent round gets its own new shared instance, so that state a parser graph
	// might accumulate on first use (caches, size hints, lazily initialised tables) is first touched
	// while several goroutines are inside it - a warmed-up shared instance would hide such writes.
	build  func() parsley.Parser
	eval   bool
	inputs []c14input
}

func c14outcome(p parsley.Parser, in string, eval bool, fs *parsley.FileSet, f *text.File) (s string) {
	defer func() {
		if e := recover(); e != nil {
			s = "panic: " + fmt.Sprint(e)
		}
	}()
	if f == nil {
		f = text.NewFile("f", []byte(in))
		fs = parsley.NewFileSet(f)
	}
	ctx := parsley.NewContext(fs, text.NewReader(f))
	base := int(f.Pos(0))
	one := func() string {
		if eval {
			v, err := parsley.Evaluate(ctx, p)
			if err != nil {
				return "error: " + err.Error()
			}
			return fmt.Sprintf("value: %#v", v)
		}
		n, err := parsley.Parse(ctx, p)
		if err != nil {
			return "error: " + err.Error()
		}
		return "tree: " + gram.Render(n, base)
	}
	first := one()
	calls := ctx.CallCount()
	if len(in)%3 == 0 {
		// the SAME context used for a second parse after the first one returned (its result cache answers most of it):
		// whatever the library keeps per context must still belong to this goroutine
		if second := one(); second != first {
			return "second parse on the same context differs: " + first + " / " + second
		}
	}
	return first + fmt.Sprintf(" calls=%d", calls)
}

var c14yield int64

// c14hooks: no mutable state (the graph is shared between goroutines); optionally yields the processor from inside the parse
func c14hooks(yieldEvery int64) *gram.Hooks {
	// the terminals of these graphs use the context's keyword registry (lazy registration by a hand-written parser):
	// every parse has its own context, so nothing of it may be shared between concurrent parses
	if yieldEvery == 0 {
		return &gram.Hooks{KeywordLeaves: true}
	}
	return &gram.Hooks{KeywordLeaves: true, Around: func(e *gram.Expr, p parsley.Parser) parsley.Parser {
		return parser.Func(func(ctx *parsley.Context, lrc data.IntMap, pos parsley.Pos) (parsley.Node, data.IntSet, parsley.Error) {
			if atomic.AddInt64(&c14yield, 1)%yieldEvery == 0 {
				runtime.Gosched()
			}
			return p.Parse(ctx, lrc, pos)
		})
	}}
}

// c14vetted: a random grammar + inputs that stay within the logical budget when run alone (with the guard probes)
func c14vetted(r *rand.Rand, g *gram.Grammar, nt int, n int) []string {
	var ins []string
	for tries := 0; len(ins) < n && tries < 4*n; tries++ {
		in := g.RandomInput(r, nt, 8, 60)
		env := gram.NewEnv(in)
		gd := gram.NewGuard(env.Base)
		gd.MaxEvents, gd.MaxCalls = 20000, 40000
		b := gram.Build(g, &gram.Hooks{Budget: gd.LeafTick, Inside: gd.Inside, Outside: gd.Outside})
		if o := gram.Run(env, b.NTs[nt], 0); o.Budget == "" && o.Bound == nil && o.Panic == "" {
			ins = append(ins, in)
		}
	}
	return ins
}

// c14patternSerial numbers the constructions of the regexp tokenizer
var c14patternSerial int64

func c14graphs(r *rand.Rand, yieldEvery int64) []*c14graph {
	var gs []*c14graph
	// JSON example
	jg := &jsonGen{r: r}
	jgr := &c14graph{name: "json example", build: func() parsley.Parser { return combinator.Sentence(text.Trim(json.NewParser())) }, eval: true}
	for i := 0; i < 10; i++ {
		doc := jg.doc(1 + r.Intn(3))
		if i%2 == 1 && len(doc) > 1 { // failure inputs: the pinned race is on the failure path
			doc = doc[:1+r.Intn(len(doc)-1)]
		}
		jgr.inputs = append(jgr.inputs, c14input{text: doc})
	}
	jgr.inputs = append(jgr.inputs, c14input{text: `{"a" 1}`}, c14input{text: `[1, 2`}, c14input{text: ""})
	// size-diverse inputs: long lists and deep nesting reach code that short inputs never execute
	long := "[" + strings.Repeat("1, ", 20+r.Intn(40)) + "2]"
	jgr.inputs = append(jgr.inputs, c14input{text: long}, c14input{text: long[:len(long)-1]},
		c14input{text: "{" + strings.Repeat(`"k": [true, null], `, 18+r.Intn(10)) + `"z": {}}`},
		c14input{text: strings.Repeat("[", 30) + "0" + strings.Repeat("]", 30)})
	gs = append(gs, jgr)
	// arithmetic
	agr := &c14graph{name: "left-recursive arithmetic", build: func() parsley.Parser { return newArith().Root }, eval: true}
	for i := 0; i < 10; i++ {
		g := &arithGen{r: r, maxDepth: 2 + r.Intn(3), zeroBias: 15, ws: c05ws}
		var sb strings.Builder
		g.print(g.expr(g.maxDepth), &sb)
		s := sb.String()
		if i%3 == 2 && len(s) > 0 {
			k := r.Intn(len(s))
			s = s[:k] + ")" + s[k:]
		}
		agr.inputs = append(agr.inputs, c14input{text: s})
	}
	agr.inputs = append(agr.inputs, c14input{text: "1" + strings.Repeat(" + 2 * 3", 25+r.Intn(20))}, c14input{text: strings.Repeat("(", 20) + "7" + strings.Repeat(")", 20) + "/0"})
	gs = append(gs, agr)
	// seed corpus grammars (left recursive) built WITHOUT stateful probes
	corpus := gram.SeedCorpus()
	for _, k := range []int{0, 2, 4, 5, 9} {
		s := corpus[k]
		cg := &c14graph{name: "corpus " + s.Name, build: func() parsley.Parser {
			return combinator.Sentence(gram.Build(s.G, c14hooks(yieldEvery)).NTs[0])
		}}
		for _, in := range s.Inputs {
			cg.inputs = append(cg.inputs, c14input{text: in})
		}
		if k == 0 || k == 9 { // P -> P b | a and E -> E b T | T ... : long left-recursive inputs
			cg.inputs = append(cg.inputs, c14input{text: "a" + strings.Repeat("b", 40+r.Intn(30))}, c14input{text: "a" + strings.Repeat("ba", 30)})
		}
		gs = append(gs, cg)
	}
	// random grammars
	for i := 0; i < 6; i++ {
		var g *gram.Grammar
		switch i % 3 {
		case 0:
			g = gram.MutualLR(r)
		case 1:
			g = gram.Random(r, gram.GenOpts{Stratified: true})
		default:
			// token-level grammars over the typed terminals (integer, float, bool, nil, char, duration, word, regexp),
			// trimmed in every mode: every terminal and trimming wrapper of the library is a closure shared by all goroutines
			g = gram.TypedGrammar(r, false, true)
		}
		if i%3 != 2 {
			// SuppressError around half of the references and an eighth of the other sub-expressions: one more wrapper
			// value that all goroutines run at once
			g.SuppressSome(r.Intn)
		}
		nt := r.Intn(len(g.NTs))
		ins := c14vetted(r, g, nt, 8)
		if len(ins) == 0 {
			continue
		}
		rg := &c14graph{name: "random " + g.String(), build: func() parsley.Parser {
			return combinator.Sentence(gram.Build(g, c14hooks(yieldEvery)).NTs[nt])
		}}
		for _, in := range ins {
			rg.inputs = append(rg.inputs, c14input{text: in})
		}
		gs = append(gs, rg)
	}
	// a repetition-heavy grammar: Many / SepBy over long inputs
	{
		g := gram.New("ab", 2)
		g.NTs[0] = g.Mk(gram.OpSeqOf, g.Mk(gram.OpMany, g.Rune('a')), g.Mk(gram.OpSepBy, g.Ref(1), g.Rune('a')))
		g.NTs[1] = g.Mk(gram.OpMany1, g.Rune('b'))
		mg := &c14graph{name: "repetitions " + g.String(), build: func() parsley.Parser {
			return combinator.Sentence(gram.Build(g, c14hooks(yieldEvery)).NTs[0])
		}}
		for _, in := range []string{"", "aaab", "b", strings.Repeat("a", 50), strings.Repeat("a", 10) + strings.Repeat("ba", 40) + "b", strings.Repeat("b", 45), strings.Repeat("ba", 20) + "c"} {
			mg.inputs = append(mg.inputs, c14input{text: in})
		}
		gs = append(gs, mg)
	}
	// a tokenizer of regular-expression terminals whose pattern TEXTS are new with every construction (a service that
	// builds grammars from configuration): whatever the library keeps per pattern is written in every round, not only
	// by the first users of a cold process. The language is the same for every construction (the optional Z{n} tail
	// never matches the Z-free inputs).
	{
		rgr := &c14graph{name: "regexp tokens with fresh pattern texts", build: func() parsley.Parser {
			n := atomic.AddInt64(&c14patternSerial, 1)
			var alts []parsley.Parser
			for k := 0; k < 12; k++ {
				pat, group := fmt.Sprintf("%c+(?:Z{%d})?", 'a'+k, 1+n%900), 0
				if k%2 == 1 { // every other token takes its value from a capturing group
					pat, group = fmt.Sprintf("(%c+)(?:Z{%d})?", 'a'+k, 1+n%900), 1
				}
				alts = append(alts, text.LeftTrim(terminal.Regexp("tok", "TOK", "a token", pat, group), text.WsSpaces))
			}
			// every token is a two-element sequence (token, optional '!') whose result handler is the library's
			// ReturnSingle(), constructed ONCE here with the grammar and used by every concurrent parse
			single := combinator.ReturnSingle()
			tok := combinator.SeqOf(combinator.Choice(alts...), combinator.Optional(terminal.Rune('!'))).HandleResult(single)
			return combinator.Sentence(text.RightTrim(combinator.Many(tok), text.WsSpacesNl))
		}}
		for _, in := range []string{"", "a", "aaa bb c", "l k j i h g f e d c b a", "abcdefghijkl", "aa  bb 1", "a\nb", "kkk lll\n", strings.Repeat("abc def ghi jkl ", 12), strings.Repeat("l", 300) + " !"} {
			rgr.inputs = append(rgr.inputs, c14input{text: in})
		}
		gs = append(gs, rgr)
	}
	// NOTE: the expected outcomes are NOT computed here. Any sequential parse before the first concurrent round would
	// warm up process-wide state (a lazily filled package-level cache is only written by its first users) and hide
	// exactly the writes a cold concurrent start performs. c14expect computes them after the rounds.
	return gs
}

// c14expect computes the outcome of every input executed alone, on a private instance of each graph
func c14expect(gs []*c14graph) {
	for _, g := range gs {
		private := g.build()
		for i := range g.inputs {
			g.inputs[i].want = c14outcome(private, g.inputs[i].text, g.eval, nil, nil)
		}
	}
}

// c14observed collects the distinct outcomes every (graph, input) produced in the concurrent rounds
type c14observed struct {
	mu  sync.Mutex
	got map[[2]int]map[string]int // (graph, input) -> outcome -> goroutines of the round it was first seen in
}

type c14span struct {
	g          int
	start, end int64
}

func c14round(a *run.Acc, obs *c14observed, gs []*c14graph, r *rand.Rand, goroutines, procs, iters int, sharedFS bool, construct bool) {
	old := runtime.GOMAXPROCS(procs)
	defer runtime.GOMAXPROCS(old)
	var clock int64
	var mu sync.Mutex
	var spans []c14span
	var wg sync.WaitGroup
	start := make(chan struct{})
	seeds := make([]int64, goroutines)
	for i := range seeds {
		seeds[i] = r.Int63()
	}
	// one shared file set with one file per (goroutine, iteration) when sharedFS is set
	type job struct {
		gi, ii int
		f      *text.File
	}
	plans := make([][]job, goroutines)
	var fs *parsley.FileSet
	if sharedFS {
		fs = parsley.NewFileSet()
	}
	for w := 0; w < goroutines; w++ {
		rr := rand.New(rand.NewSource(seeds[w]))
		for k := 0; k < iters; k++ {
			gi := rr.Intn(len(gs))
			ii := rr.Intn(len(gs[gi].inputs))
			jb := job{gi: gi, ii: ii}
			if sharedFS {
				jb.f = text.NewFile("f", []byte(gs[gi].inputs[ii].text))
				fs.AddFile(jb.f)
			}
			plans[w] = append(plans[w], jb)
		}
	}
	var built int64
	roots := make([]parsley.Parser, len(gs)) // fresh shared instances for this round
	for i, g := range gs {
		roots[i] = g.build()
	}
	for w := 0; w < goroutines; w++ {
		wg.Add(1)
		go func(w int) {
			defer wg.Done()
			<-start
			local := make([]c14span, 0, iters)
			for k, jb := range plans[w] {
				g := gs[jb.gi]
				in := g.inputs[jb.ii]
				if construct && k%5 == w%5 {
					// concurrent grammar construction while others parse
					_ = newArith()
					_ = combinator.Sentence(text.Trim(json.NewParser()))
					_ = gram.Build(gram.SeedCorpus()[0].G, &gram.Hooks{})
					atomic.AddInt64(&built, 3)
				}
				t0 := atomic.AddInt64(&clock, 1)
				var got string
				if sharedFS {
					got = c14outcome(roots[jb.gi], in.text, g.eval, fs, jb.f)
				} else {
					got = c14outcome(roots[jb.gi], in.text, g.eval, nil, nil)
				}
				t1 := atomic.AddInt64(&clock, 1)
				local = append(local, c14span{w, t0, t1})
				obs.mu.Lock()
				k := [2]int{jb.gi, jb.ii}
				if obs.got[k] == nil {
					obs.got[k] = map[string]int{}
				}
				if _, seen := obs.got[k][got]; !seen {
					obs.got[k][got] = goroutines
				}
				obs.mu.Unlock()
			}
			mu.Lock()
			spans = append(spans, local...)
			mu.Unlock()
		}(w)
	}
	close(start)
	wg.Wait()
	a.Count("concurrent parses", int64(len(spans)))
	a.Count("grammars constructed concurrently with parses", built)
	// pairs of parses on different goroutines that overlapped in logical time
	sort.Slice(spans, func(i, j int) bool { return spans[i].start < spans[j].start })
	overlaps := int64(0)
	for i := range spans {
		for j := i + 1; j < len(spans) && spans[j].start < spans[i].end; j++ {
			if spans[j].g != spans[i].g {
				overlaps++
			}
		}
	}
	a.Count("pairs of parses that overlapped in logical time", overlaps)
	a.SetMax("goroutines in one round", int64(goroutines))
	if overlaps > 0 {
		a.NonTrivial(fmt.Sprintf("round g=%d p=%d shared=%v construct=%v seed=%d", goroutines, procs, sharedFS, construct, seeds[0]))
	}
}

// c14porcupine: concurrent Memoize constructions, checked as a fetch-and-increment counter
func c14porcupine(a *run.Acc, goroutines, per int) {
	var clock int64
	var mu sync.Mutex
	var ops []porcupine.Operation
	var wg sync.WaitGroup
	start := make(chan struct{})
	for g := 0; g < goroutines; g++ {
		wg.Add(1)
		go func(g int) {
			defer wg.Done()
			<-start
			// the constructions of one goroutine follow each other back to back (nothing but the clock in between), so that
			// constructions of different goroutines overlap even on a loaded machine; the indices are read afterwards
			type built struct {
				call, ret int64
				idx       *int
				m         parsley.Parser
			}
			bs := make([]built, per)
			for i := range bs {
				idx := new(int)
				*idx = -1
				bs[i].idx = idx
				probe := parser.Func(func(ctx *parsley.Context, lrc data.IntMap, pos parsley.Pos) (parsley.Node, data.IntSet, parsley.Error) {
					if ks := lrc.Keys(); len(ks) == 1 {
						*idx = ks[0] // with an empty incoming context the only key is this Memoize's own index
					}
					return nil, data.EmptyIntSet, nil
				})
				bs[i].call = atomic.AddInt64(&clock, 1)
				bs[i].m = combinator.Memoize(probe)
				bs[i].ret = atomic.AddInt64(&clock, 1)
			}
			for i := range bs {
				f := text.NewFile("f", []byte("x"))
				ctx := parsley.NewContext(parsley.NewFileSet(f), text.NewReader(f))
				bs[i].m.Parse(ctx, data.EmptyIntMap, f.Pos(0))
				mu.Lock()
				ops = append(ops, porcupine.Operation{ClientId: g, Input: nil, Call: bs[i].call, Output: *bs[i].idx, Return: bs[i].ret})
				mu.Unlock()
			}
		}(g)
	}
	close(start)
	wg.Wait()
	first := ops[0].Output.(int)
	distinct := map[int]bool{}
	for _, o := range ops {
		if v := o.Output.(int); v < first {
			first = v
		}
		distinct[o.Output.(int)] = true
	}
	a.Count("memoize constructions in porcupine histories", int64(len(ops)))
	if len(distinct) != len(ops) {
		a.Violate("duplicate-parser-index", "duplicate-parser-index", map[string]any{"constructions": len(ops), "distinct_indices": len(distinct)})
		return
	}
	model := porcupine.Model{
		Init: func() interface{} { return first - 1 },
		Step: func(st, in, out interface{}) (bool, interface{}) {
			return out.(int) == st.(int)+1, st.(int) + 1
		},
	}
	res, _ := porcupine.CheckOperationsVerbose(model, ops, 60*time.Second)
	switch res {
	case porcupine.Ok:
		a.Count("porcupine verdict Ok", 1)
	case porcupine.Illegal:
		a.Violate("index-allocation-not-linearizable", "index-allocation-not-linearizable", map[string]any{"constructions": len(ops)})
	default:
		a.Count("inconclusive:porcupine timeout", 1)
	}
}

func c14exec(j run.Job, a *run.Acc) {
	r := rand.New(rand.NewSource(j.Seed))
	switch j.Family {
	case "shared-graphs":
		gs := c14graphs(r, int64(j.Param("yield", 0)))
		a.Count("shared parser graphs", int64(len(gs)))
		obs := &c14observed{got: map[[2]int]map[string]int{}}
		a.Sample("graph", map[string]any{"graph": gs[len(gs)-1].name, "inputs": len(gs[len(gs)-1].inputs)})
		round := 0
		for rep := 0; rep < j.N; rep++ {
			for _, n := range []int{2, 4, 8, 16} {
				for _, procs := range []int{2, 4, 16} {
					round++
					if !a.Begin() {
						continue
					}
					a.Count("rounds", 1)
					c14round(a, obs, gs, rand.New(rand.NewSource(j.Seed*7919+int64(round))), n, procs, j.Param("iters", 12), rep%2 == 1, (rep+n)%3 == 0)
				}
			}
		}
		// only now, after the concurrent rounds, is anything parsed sequentially in this process
		c14expect(gs)
		for gi, g := range gs {
			for ii, in := range g.inputs {
				if strings.HasPrefix(in.want, "error") {
					a.Count("failure inputs in the pool", 1)
				} else {
					a.Count("success inputs in the pool", 1)
				}
				for got, n := range obs.got[[2]int{gi, ii}] {
					a.Count("distinct concurrent outcomes compared with the sequential run", 1)
					if got != in.want {
						a.Violate("concurrent-result-differs-from-sequential", "concurrent-result-differs-from-sequential",
							map[string]any{"graph": g.name, "input": in.text, "alone": trunc(in.want, 300), "concurrent": trunc(got, 300), "goroutines": n})
					}
				}
			}
		}
	case "index-allocation":
		for rep := 0; rep < j.N; rep++ {
			g, per := 2+r.Intn(15), 30+r.Intn(40)
			if !a.Begin() {
				continue
			}
			c14porcupine(a, g, per)
		}
	}
}

// c14post counts and de-duplicates the race detector's reports written by the workers
func c14post(outdir string, a *run.Acc) {
	files, _ := filepath.Glob(filepath.Join(outdir, "race.w*"))
	raw := 0
	sigs := map[string]string{}
	for _, f := range files {
		fh, err := os.Open(f)
		if err != nil {
			continue
		}
		b := make([]byte, 32<<20) // the first 32 MiB of a log are plenty to find every distinct access pair
		n, _ := io.ReadFull(fh, b)
		fh.Close()
		b = b[:n]
		blocks := strings.Split(string(b), "==================")
		for _, blk := range blocks {
			if !strings.Contains(blk, "WARNING: DATA RACE") {
				continue
			}
			raw++
			// signature: innermost function of each of the two accesses, line numbers stripped
			var fns []string
			lines := strings.Split(blk, "\n")
			for i, ln := range lines {
				t := strings.TrimSpace(ln)
				if (strings.HasPrefix(t, "Write at") || strings.HasPrefix(t, "Read at") || strings.HasPrefix(t, "Previous write at") || strings.HasPrefix(t, "Previous read at")) && i+1 < len(lines) {
					fn := strings.TrimSpace(lines[i+1])
					if k := strings.Index(fn, "("); k > 0 {
						fn = fn[:k]
					}
					fns = append(fns, fn)
				}
			}
			sort.Strings(fns)
			sig := strings.Join(fns, " <-> ")
			if _, ok := sigs[sig]; !ok {
				sigs[sig] = blk
			}
		}
	}
	a.Count("race detector reports (raw)", int64(raw))
	a.Count("race detector reports (distinct access pairs)", int64(len(sigs)))
	var keys []string
	for k := range sigs {
		keys = append(keys, k)
	}
	sort.Strings(keys)
	for _, k := range keys {
		rep := sigs[k]
		if len(rep) > 4000 {
			rep = rep[:4000]
		}
		a.Violate("data-race", "data-race:"+k, map[string]any{"accesses": k, "report": rep})
	}
}

func init() {
	run.Register(&run.Check{
		ID:    "C14",
		Title: "A parser graph can be shared by concurrent parses",
		Race:  true,
		Plan: func(tier string, seed int64) []run.Job {
			var jobs []run.Job
			nj, reps, iters := 8, 3, 10
			if tier == "thorough" {
				nj, reps, iters = 16, 6, 16
			}
			for i := 0; i < nj; i++ {
				jobs = append(jobs, run.Job{Family: "shared-graphs", Seed: seed*1000 + int64(i), N: reps, P: map[string]int{"iters": iters, "yield": []int{0, 7, 3}[i%3]}})
			}
			jobs = append(jobs, run.Job{Family: "index-allocation", Seed: seed*1000 + 500, N: reps * 12})
			jobs = append(jobs, run.Job{Family: "index-allocation", Seed: seed*1000 + 501, N: reps * 12})
			return jobs
		},
		Exec:       c14exec,
		Post:       c14post,
		SerialJobs: true, // one fresh process per job: every job starts cold (nothing parsed before its first concurrent round)
		Finish: func(tier string, a *run.Acc, cov map[string]any) string {
			cov["rule"] = "the check runs in a -race build (GORACE halt_on_error=0 log_path=...). case = one round: N in {2,4,8,16} goroutines released by a barrier at GOMAXPROCS in {2,4,16}, each parsing/evaluating inputs (success and failure) " +
				"on SHARED parser graphs (JSON example, left-recursive arithmetic, left-recursive seed-corpus grammars, random and mutual-LR grammars) with its own file, reader and context " +
				"(own file set, or one pre-built shared file set with one file per parse); runtime.Gosched injected from probes; grammars constructed concurrently in a third of the rounds. " +
				"Oracles: any race detector report = violation (reports counted raw and de-duplicated by access pair); every concurrent outcome (value/tree/error text/CallCount) equals the same parse executed alone; " +
				"porcupine checks the history of concurrent Memoize constructions against a fetch-and-increment model. " +
				"non-trivial = a round in which parses on different goroutines overlapped in logical time; distinct = round parameters"
			cov["race_detector"] = "go build -race; reports read from GORACE log files"
			if a.Counters["pairs of parses that overlapped in logical time"] == 0 {
				return "no two parses overlapped"
			}
			if a.Counters["failure inputs in the pool"] == 0 || a.Counters["success inputs in the pool"] == 0 {
				return "input pool lacks success or failure inputs"
			}
			if a.Counters["porcupine verdict Ok"] == 0 && a.NViol == 0 {
				return "porcupine produced no verdict"
			}
			return ""
		},
		Assumptions: []string{
			"the race detector only sees accesses the workload executed; interleavings are those the Go scheduler produced under the GOMAXPROCS/Gosched variation",
			"the anchor's 'static list of package-level variables' is static analysis and is not part of this check",
		},
	})
}
