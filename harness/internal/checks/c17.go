package checks

import (
	"fmt"
	"math/rand"
	"strings"

	"github.com/opsidian/parsley/combinator"
	"github.com/opsidian/parsley/data"
	"github.com/opsidian/parsley/parser"
	"github.com/opsidian/parsley/parsley"
	"github.com/opsidian/parsley/text"
	"github.com/opsidian/parsley/text/terminal"

	"verifharness/internal/gram"
	"verifharness/internal/run"
)

// C17: work stays polynomial on unambiguous grammars. Monitor: Context.CallCount
// for inputs of length n and 2n; the 2n run executes under a logical limit of
// 16 x calls(n), so an exponential regression is a prompt violation, not a hang.

type c17family struct {
	name   string
	judged bool
	// build returns a fresh root parser (not yet wrapped in Sentence) and the input of (about) length n.
	// tick must be called by some frequently executed probe with the context (enforces the call limit).
	build func(r *rand.Rand, n int, tick func(ctx *parsley.Context)) (parsley.Parser, string)
}

type c17limit struct{ limit int }

// c17suppress: when set, the family's grammar gets SuppressError around half of its nonterminal references (the
// left-recursive ones included) before it is built - the same wrapping for the n and the 2n run of a variant
var c17suppress *rand.Rand

func c17gram(g *gram.Grammar, tick func(ctx *parsley.Context)) parsley.Parser {
	if c17suppress != nil {
		g.SuppressSome(c17suppress.Intn)
	}
	b := gram.Build(g, &gram.Hooks{Inside: func(nt int, p parsley.Parser) parsley.Parser {
		return parser.Func(func(ctx *parsley.Context, lrc data.IntMap, pos parsley.Pos) (parsley.Node, data.IntSet, parsley.Error) {
			tick(ctx)
			return p.Parse(ctx, lrc, pos)
		})
	}})
	return b.NTs[0]
}

func c17letters(r *rand.Rand, k int) []byte {
	perm := r.Perm(len("abcdefghxyz"))
	out := make([]byte, k)
	for i := range out {
		out[i] = "abcdefghxyz"[perm[i]]
	}
	return out
}

func c17families() []c17family {
	rep := func(s string, n int) string {
		if n < 0 {
			n = 0
		}
		return strings.Repeat(s, n)
	}
	return []c17family{
		{"direct P -> P t.. | a", true, func(r *rand.Rand, n int, tick func(*parsley.Context)) (parsley.Parser, string) {
			l := c17letters(r, 3)
			step := 1 + r.Intn(2)
			g := gram.New(string(l), 1)
			kids := []*gram.Expr{g.Ref(0), g.Rune(l[1])}
			tail := string(l[1])
			if step == 2 {
				kids = append(kids, g.Rune(l[2]))
				tail += string(l[2])
			}
			g.NTs[0] = g.Mk(gram.OpAny, g.Mk(gram.OpSeqOf, kids...), g.Rune(l[0]))
			return c17gram(g, tick), string(l[0]) + rep(tail, (n-1)/step)
		}},
		{"direct, two left-recursive alternatives P -> P b | P c | a", true, func(r *rand.Rand, n int, tick func(*parsley.Context)) (parsley.Parser, string) {
			l := c17letters(r, 3)
			g := gram.New(string(l), 1)
			g.NTs[0] = g.Mk(gram.OpAny, g.Mk(gram.OpSeqOf, g.Ref(0), g.Rune(l[1])), g.Mk(gram.OpSeqOf, g.Ref(0), g.Rune(l[2])), g.Rune(l[0]))
			s := string(l[0])
			for i := 0; len(s) < n; i++ {
				s += string(l[1+(i*7+i/3)%2])
			}
			return c17gram(g, tick), s
		}},
		{"per-operator alternatives E -> E + T | E - T | T ; T -> T * F | T / F | F ; F -> ( E ) | n", true, func(r *rand.Rand, n int, tick func(*parsley.Context)) (parsley.Parser, string) {
			// single-byte version over the grammar model: p=+ m=- t=* d=/ o=( c=) n=number
			g := gram.New("pmtdocn", 3)
			g.NTs[0] = g.Mk(gram.OpAny, g.Mk(gram.OpSeqOf, g.Ref(0), g.Rune('p'), g.Ref(1)), g.Mk(gram.OpSeqOf, g.Ref(0), g.Rune('m'), g.Ref(1)), g.Ref(1))
			g.NTs[1] = g.Mk(gram.OpAny, g.Mk(gram.OpSeqOf, g.Ref(1), g.Rune('t'), g.Ref(2)), g.Mk(gram.OpSeqOf, g.Ref(1), g.Rune('d'), g.Ref(2)), g.Ref(2))
			g.NTs[2] = g.Mk(gram.OpAny, g.Mk(gram.OpSeqOf, g.Rune('o'), g.Ref(0), g.Rune('c')), g.Rune('n'))
			ops := "ptmd"
			s := "n"
			for i := r.Intn(5); len(s) < n-2; i++ {
				if i%5 == 4 {
					s = "o" + s + "c"
				} else {
					s += string(ops[i%4]) + "n"
				}
			}
			return c17gram(g, tick), s
		}},
		{"optional unary minus before a bracket F -> m? ( E ) | n, E/T left recursive", true, func(r *rand.Rand, n int, tick func(*parsley.Context)) (parsley.Parser, string) {
			// p=+ t=* m=- o=( c=) n=number; the optional prefix is a zero-width first element in front of a consuming terminal
			g := gram.New("ptmocn", 3)
			g.NTs[0] = g.Mk(gram.OpAny, g.Mk(gram.OpSeqOf, g.Ref(0), g.Rune('p'), g.Ref(1)), g.Ref(1))
			g.NTs[1] = g.Mk(gram.OpAny, g.Mk(gram.OpSeqOf, g.Ref(1), g.Rune('t'), g.Ref(2)), g.Ref(2))
			g.NTs[2] = g.Mk(gram.OpAny, g.Mk(gram.OpSeqOf, g.Mk(gram.OpOpt, g.Rune('m')), g.Rune('o'), g.Ref(0), g.Rune('c')), g.Rune('n'))
			var s string
			switch r.Intn(3) {
			case 0: // pure nesting ((((n))))
				k := (n - 1) / 2
				s = rep("o", k) + "n" + rep("c", k)
			case 1: // nesting with a minus on every other level
				s = "n"
				for i := 0; len(s) < n-3; i++ {
					if i%2 == 0 {
						s = "mo" + s + "c"
					} else {
						s = "o" + s + "c"
					}
				}
			default: // mixed
				s = "n"
				for i := r.Intn(3); len(s) < n-3; i++ {
					switch i % 3 {
					case 0:
						s = "o" + s + "c"
					case 1:
						s += "pn"
					default:
						s = "mo" + s + "tn" + "c"
					}
				}
			}
			return c17gram(g, tick), s
		}},
		{"precedence chain of 5-7 left-recursive levels E1 -> E1 o1 E2 | E2 ; ... ; EL -> n", true, func(r *rand.Rand, n int, tick func(*parsley.Context)) (parsley.Parser, string) {
			levels := 5 + r.Intn(3)
			ops := "pqrstuvwxy"
			g := gram.New(ops[:levels-1]+"n", levels)
			for i := 0; i < levels-1; i++ {
				g.NTs[i] = g.Mk(gram.OpAny, g.Mk(gram.OpSeqOf, g.Ref(i), g.Rune(ops[i]), g.Ref(i+1)), g.Ref(i+1))
			}
			g.NTs[levels-1] = g.Rune('n')
			s := "n"
			for i := r.Intn(levels); len(s)+2 <= n; i++ {
				s += string(ops[(i*3+i/2)%(levels-1)]) + "n"
			}
			return c17gram(g, tick), s
		}},
		{"precedence chain of 9-10 left-recursive levels E1 -> E1 o1 E2 | E2 ; ... ; EL -> n", true, func(r *rand.Rand, n int, tick func(*parsley.Context)) (parsley.Parser, string) {
			levels := 9 + r.Intn(2)
			ops := "pqrstuvwxy"
			g := gram.New(ops[:levels-1]+"n", levels)
			for i := 0; i < levels-1; i++ {
				g.NTs[i] = g.Mk(gram.OpAny, g.Mk(gram.OpSeqOf, g.Ref(i), g.Rune(ops[i]), g.Ref(i+1)), g.Ref(i+1))
			}
			g.NTs[levels-1] = g.Rune('n')
			s := "n"
			for i := r.Intn(levels); len(s)+2 <= n; i++ {
				s += string(ops[(i*3+i/2)%(levels-1)]) + "n"
			}
			return c17gram(g, tick), s
		}},
		{"mutual pair A -> B t | a ; B -> A u | d", true, func(r *rand.Rand, n int, tick func(*parsley.Context)) (parsley.Parser, string) {
			l := c17letters(r, 4)
			g := gram.New(string(l), 2)
			g.NTs[0] = g.Mk(gram.OpAny, g.Mk(gram.OpSeqOf, g.Ref(1), g.Rune(l[1])), g.Rune(l[0]))
			g.NTs[1] = g.Mk(gram.OpAny, g.Mk(gram.OpSeqOf, g.Ref(0), g.Rune(l[2])), g.Rune(l[3]))
			return c17gram(g, tick), string(l[0]) + rep(string(l[2])+string(l[1]), (n-1)/2)
		}},
		{"mutual pair, both members also directly left recursive X -> X p | A q ; A -> A r | X s | a", true, func(r *rand.Rand, n int, tick func(*parsley.Context)) (parsley.Parser, string) {
			l := c17letters(r, 5) // p q r s a
			g := gram.New(string(l), 2)
			g.NTs[0] = g.Mk(gram.OpAny, g.Mk(gram.OpSeqOf, g.Ref(0), g.Rune(l[0])), g.Mk(gram.OpSeqOf, g.Ref(1), g.Rune(l[1])))
			g.NTs[1] = g.Mk(gram.OpAny, g.Mk(gram.OpSeqOf, g.Ref(1), g.Rune(l[2])), g.Mk(gram.OpSeqOf, g.Ref(0), g.Rune(l[3])), g.Rune(l[4]))
			// left-linear with a distinct last terminal per rule: a two-state walk, deterministic and unambiguous
			b := []byte{l[4]}
			inA := true
			for len(b) < n-1 {
				switch {
				case inA && r.Intn(2) == 0:
					b = append(b, l[2])
				case inA:
					b, inA = append(b, l[1]), false
				case r.Intn(2) == 0:
					b = append(b, l[0])
				default:
					b, inA = append(b, l[3]), true
				}
			}
			if inA {
				b = append(b, l[1])
			} else {
				b = append(b, l[0])
			}
			return c17gram(g, tick), string(b)
		}},
		{"mutual triple A -> B t | a ; B -> C u | d ; C -> A v | e", true, func(r *rand.Rand, n int, tick func(*parsley.Context)) (parsley.Parser, string) {
			l := c17letters(r, 6)
			g := gram.New(string(l), 3)
			g.NTs[0] = g.Mk(gram.OpAny, g.Mk(gram.OpSeqOf, g.Ref(1), g.Rune(l[1])), g.Rune(l[0]))
			g.NTs[1] = g.Mk(gram.OpAny, g.Mk(gram.OpSeqOf, g.Ref(2), g.Rune(l[2])), g.Rune(l[3]))
			g.NTs[2] = g.Mk(gram.OpAny, g.Mk(gram.OpSeqOf, g.Ref(0), g.Rune(l[4])), g.Rune(l[5]))
			return c17gram(g, tick), string(l[0]) + rep(string(l[4])+string(l[2])+string(l[1]), (n-1)/3)
		}},
		{"hidden P -> x? P b | a (prefix absent)", true, func(r *rand.Rand, n int, tick func(*parsley.Context)) (parsley.Parser, string) {
			l := c17letters(r, 3)
			g := gram.New(string(l), 1)
			var pre *gram.Expr
			switch r.Intn(3) {
			case 0:
				pre = g.Mk(gram.OpOpt, g.Rune(l[2]))
			case 1:
				pre = g.Mk(gram.OpMany, g.Rune(l[2]))
			default:
				pre = g.Mk(gram.OpEmpty)
			}
			g.NTs[0] = g.Mk(gram.OpAny, g.Mk(gram.OpSeqOf, pre, g.Ref(0), g.Rune(l[1])), g.Rune(l[0]))
			return c17gram(g, tick), string(l[0]) + rep(string(l[1]), n-1)
		}},
		{"hidden P -> x? P b | a (prefix present: ambiguous, information only)", false, func(r *rand.Rand, n int, tick func(*parsley.Context)) (parsley.Parser, string) {
			g := gram.New("abx", 1)
			g.NTs[0] = g.Mk(gram.OpAny, g.Mk(gram.OpSeqOf, g.Mk(gram.OpOpt, g.Rune('x')), g.Ref(0), g.Rune('b')), g.Rune('a'))
			return c17gram(g, tick), "xa" + rep("b", n-2)
		}},
		{"nested brackets S -> ( S ) | x", true, func(r *rand.Rand, n int, tick func(*parsley.Context)) (parsley.Parser, string) {
			l := c17letters(r, 3)
			g := gram.New(string(l), 1)
			g.NTs[0] = g.Mk(gram.OpAny, g.Mk(gram.OpSeqOf, g.Rune(l[0]), g.Ref(0), g.Rune(l[1])), g.Rune(l[2]))
			k := (n - 1) / 2
			return c17gram(g, tick), rep(string(l[0]), k) + string(l[2]) + rep(string(l[1]), k)
		}},
		{"right recursion R -> a R | a", true, func(r *rand.Rand, n int, tick func(*parsley.Context)) (parsley.Parser, string) {
			l := c17letters(r, 2)
			g := gram.New(string(l), 1)
			g.NTs[0] = g.Mk(gram.OpChoice, g.Mk(gram.OpSeqOf, g.Rune(l[0]), g.Ref(0)), g.Rune(l[0]))
			return c17gram(g, tick), rep(string(l[0]), n)
		}},
		{"separated list SepBy(item, sep) with a memoized item", true, func(r *rand.Rand, n int, tick func(*parsley.Context)) (parsley.Parser, string) {
			l := c17letters(r, 3)
			g := gram.New(string(l), 2)
			op := gram.OpSepBy
			if r.Intn(2) == 0 {
				op = gram.OpSepBy1
			}
			g.NTs[0] = g.Mk(op, g.Ref(1), g.Rune(l[1]))
			g.NTs[1] = g.Mk(gram.OpChoice, g.Mk(gram.OpSeqOf, g.Rune(l[0]), g.Rune(l[2])), g.Rune(l[0]))
			s := string(l[0])
			for len(s)+2 <= n {
				s += string(l[1]) + string(l[0])
			}
			return c17gram(g, tick), s
		}},
		{"left-recursive list L -> L sep item | item", true, func(r *rand.Rand, n int, tick func(*parsley.Context)) (parsley.Parser, string) {
			l := c17letters(r, 2)
			g := gram.New(string(l), 1)
			g.NTs[0] = g.Mk(gram.OpAny, g.Mk(gram.OpSeqOf, g.Ref(0), g.Rune(l[1]), g.Rune(l[0])), g.Rune(l[0]))
			return c17gram(g, tick), string(l[0]) + rep(string(l[1])+string(l[0]), (n-1)/2)
		}},
		{"keyword blocks B -> begin B* end | begin B* fin | x (terminal.Word, shared prefix)", true, func(r *rand.Rand, n int, tick func(*parsley.Context)) (parsley.Parser, string) {
			// library parts only: Word terminals with left-trimmed whitespace; two alternatives share the prefix "begin B*"
			kw := [][3]string{{"begin", "end", "fin"}, {"if", "fi", "else"}, {"do", "done", "od"}}[r.Intn(3)]
			tok := func(p parsley.Parser) parsley.Parser { return text.LeftTrim(p, text.WsSpacesNl) }
			var block parser.Func
			body := combinator.Memoize(combinator.Many(&block))
			inner := combinator.Any(
				combinator.SeqOf(tok(terminal.Word("kw", kw[0], 1)), body, tok(terminal.Word("kw", kw[1], 2))),
				combinator.SeqOf(tok(terminal.Word("kw", kw[0], 1)), body, tok(terminal.Word("kw", kw[2], 3))),
				tok(terminal.Word("kw", "x", 0)),
			)
			block = combinator.Memoize(parser.Func(func(ctx *parsley.Context, lrc data.IntMap, pos parsley.Pos) (parsley.Node, data.IntSet, parsley.Error) {
				tick(ctx)
				return inner.Parse(ctx, lrc, pos)
			}))
			// nested blocks closed alternately by the two closing keywords, with a few siblings
			s := "x"
			for i := 0; len(s) < n-len(kw[0])-len(kw[2])-3; i++ {
				cl := kw[1+i%2]
				if i%3 == 2 {
					s = kw[0] + " " + s + " x " + cl
				} else {
					s = kw[0] + " " + s + " " + cl
				}
			}
			root := combinator.Sentence(text.Trim(&block))
			return parser.Func(func(ctx *parsley.Context, lrc data.IntMap, pos parsley.Pos) (parsley.Node, data.IntSet, parsley.Error) {
				return root.Parse(ctx, lrc, pos)
			}), s
		}},
		{"nested brackets with two closers V -> ( Trim(V) ) | ( Trim(V) ] | a (trimming wrapper around the memoized reference)", true, func(r *rand.Rand, n int, tick func(*parsley.Context)) (parsley.Parser, string) {
			// library parts only: the whitespace is skipped by a text.Trim / RightTrim / LeftTrim around the REFERENCE to the
			// memoized nonterminal (not around the terminals), two alternatives share the prefix "( V", the input has
			// whitespace after every value: the cached result is asked for twice per position and trimmed each time
			var v parser.Func
			wraps := []func(p parsley.Parser) parsley.Parser{
				func(p parsley.Parser) parsley.Parser { return text.Trim(p) },
				func(p parsley.Parser) parsley.Parser { return text.RightTrim(p, text.WsSpacesNl) },
				func(p parsley.Parser) parsley.Parser {
					return text.RightTrim(text.LeftTrim(p, text.WsSpaces), text.WsSpaces)
				},
			}
			wi := r.Intn(3)
			wrap := wraps[wi]
			open := terminal.Rune('(')
			if r.Intn(2) == 0 || wi == 1 { // (a wrapper without left trimming needs the opener to take the whitespace)
				open = text.RightTrim(terminal.Rune('('), text.WsSpacesNl) // the opener swallows the whitespace behind it
			}
			inner := combinator.Any(
				combinator.SeqOf(open, wrap(&v), terminal.Rune(')')),
				combinator.SeqOf(open, wrap(&v), terminal.Rune(']')),
				terminal.Rune('a'),
			)
			v = combinator.Memoize(parser.Func(func(ctx *parsley.Context, lrc data.IntMap, pos parsley.Pos) (parsley.Node, data.IntSet, parsley.Error) {
				tick(ctx)
				return inner.Parse(ctx, lrc, pos)
			}))
			k := (n - 1) / 4
			s := rep("( ", k) + "a" + rep(" ]", k)
			if r.Intn(2) == 0 {
				s = rep("( ", k) + "a" + rep(" )", k-k/2) + rep(" ]", k/2)
			}
			root := combinator.Sentence(&v)
			return parser.Func(func(ctx *parsley.Context, lrc data.IntMap, pos parsley.Pos) (parsley.Node, data.IntSet, parsley.Error) {
				return root.Parse(ctx, lrc, pos)
			}), s
		}},
		{"arithmetic expr/term/factor", true, func(r *rand.Rand, n int, tick func(*parsley.Context)) (parsley.Parser, string) {
			a := newArith()
			ops := "+*-/"
			s := "1"
			for i := r.Intn(5); len(s) < n-2; i++ {
				switch {
				case i%5 == 4:
					s = "(" + s + ")"
				case i%7 == 6:
					s += " " + string(ops[i%4]) + " 2"
				default:
					s += string(ops[i%4]) + "2"
				}
			}
			inner := a.Root
			root := parser.Func(func(ctx *parsley.Context, lrc data.IntMap, pos parsley.Pos) (parsley.Node, data.IntSet, parsley.Error) {
				return inner.Parse(ctx, lrc, pos)
			})
			// the limit probe sits inside factor's memoized body: executed at every token position
			f := *a.Factor
			*a.Factor = func(ctx *parsley.Context, lrc data.IntMap, pos parsley.Pos) (parsley.Node, data.IntSet, parsley.Error) {
				tick(ctx)
				return f(ctx, lrc, pos)
			}
			return root, s
		}},
	}
}

type c17result struct {
	calls  int
	ok     bool
	over   bool
	capped bool // the limit in force was the absolute one
	panicv string
}

// c17corrupt replaces one byte of the family's input by a byte no family uses: the parse then fails
// (an invalid sentence has no parse at all, so the grammar stays unambiguous on it) and the work
// spent on FAILING has to stay polynomial as well.
func c17corrupt(in string, where string) string {
	if len(in) == 0 || where == "valid" {
		return in
	}
	b := []byte(in)
	switch where {
	case "bad-first":
		b[0] = '!'
	case "bad-second":
		if len(b) > 1 {
			b[1] = '!'
		} else {
			b[0] = '!'
		}
	case "bad-middle":
		b[len(b)/2] = '!'
	case "bad-last":
		b[len(b)-1] = '!'
	}
	return string(b)
}

var c17variants = []string{"valid", "bad-first", "bad-second", "bad-middle", "bad-last"}

// c17absolute: no run is allowed more parser calls than this, whatever the ratio limits chained over the sizes would
// allow (16 per doubling compounds to 16^6): a case that gets there is inconclusive, it ends the family's size ladder.
// The largest count on the unchanged tree is ~2.2*10^5 (quick) / ~10^6 (thorough).
const c17absolute = 30000000

func c17run(f c17family, seed int64, n int, limit int, where string) (res c17result, input string) {
	r := rand.New(rand.NewSource(seed))
	if limit <= 0 || limit > c17absolute {
		limit = c17absolute
		res.capped = true
	}
	tick := func(ctx *parsley.Context) {
		if limit > 0 && ctx.CallCount() > limit {
			panic(c17limit{limit})
		}
	}
	c17suppress = nil
	if seed%3 == 1 {
		c17suppress = rand.New(rand.NewSource(seed ^ 0x5e55))
	}
	p, in := f.build(r, n, tick)
	c17suppress = nil
	in = c17corrupt(in, where)
	input = in
	file := text.NewFile("f", []byte(in))
	ctx := parsley.NewContext(parsley.NewFileSet(file), text.NewReader(file))
	func() {
		defer func() {
			if e := recover(); e != nil {
				if _, isLimit := e.(c17limit); isLimit {
					res.over = true
				} else {
					res.panicv = fmt.Sprint(e)
				}
			}
		}()
		var root parsley.Parser = p
		if !strings.HasPrefix(f.name, "arithmetic") && !strings.HasPrefix(f.name, "keyword blocks") {
			root = combinator.Sentence(p)
		}
		node, err := parsley.Parse(ctx, root)
		res.ok = node != nil && err == nil
	}()
	res.calls = ctx.CallCount()
	return
}

func c17exec(j run.Job, a *run.Acc) {
	fams := c17families()
	f := fams[j.Lo]
	sizes := []int{8, 16, 32, 64, 128}
	if j.Param("big", 0) == 1 {
		sizes = append(sizes, 256)
	}
	if j.Param("huge", 0) == 1 {
		sizes = append(sizes, 512)
	}
	for v := 0; v < j.N; v++ { // v: variant (randomised terminals / shapes)
		seed := j.Seed + int64(v)*7919
		for _, where := range c17variants {
			prevCalls := map[int]int{}
			for _, n := range sizes {
				if !f.judged && n > 64 {
					continue // information only: cubic work with long result lists, not worth the minutes
				}
				if strings.HasPrefix(f.name, "mutual pair, both members") && n > 64 {
					continue // cubic on the unchanged tree (ratio -> 8): beyond 2n = 128 the counts pass 10^7
				}
				if strings.HasPrefix(f.name, "optional unary minus") && n > 128 {
					// pure nesting deeper than ~380 brackets exhausts the 1 GB goroutine stack on the unchanged tree
					// (known finding K2 of C02: recursion depth grows with the square of the nesting depth); that is
					// C02's subject, here the family stops at 2n = 256
					continue
				}
				if !a.Begin() {
					continue
				}
				a.Count("size pairs (n, 2n)", 1)
				// the length-n run is bounded as well, so that a regression cannot hang the check: 16 x the count of
				// the previous (half) size, or 10^6 calls for the smallest size
				baseLimit := 1000000
				if prev, ok := prevCalls[n/2]; ok {
					baseLimit = 16*prev + 1000
					if !f.judged {
						baseLimit = 400 * prev
					}
				}
				base, in1 := c17run(f, seed, n, baseLimit, where)
				if base.over && base.capped {
					a.Count("inconclusive:absolute call budget of 3*10^7 reached", 1)
					break
				}
				if base.over {
					a.Violate("call-budget-exceeded-at-base-size", "call-budget-exceeded-at-base-size", map[string]any{"family": f.name, "variant_seed": seed, "n": n, "limit": baseLimit, "input": where, "input_n": trunc(in1, 80)})
					break
				}
				prevCalls[n] = base.calls
				d := map[string]any{"family": f.name, "variant_seed": seed, "n": n, "input": where, "input_n": trunc(in1, 80), "calls_n": base.calls}
				if base.panicv != "" || (!base.ok && where == "valid") || (base.ok && where != "valid") {
					d["panic"] = base.panicv
					a.Violate("family-input-not-parsed", "family-input-not-parsed", d)
					continue
				}
				// determinism: three runs with freshly constructed grammars
				for k := 0; k < 2; k++ {
					again, _ := c17run(f, seed, n, baseLimit, where)
					if again.calls != base.calls {
						d["calls_again"] = again.calls
						a.Violate("call-count-not-deterministic", "call-count-not-deterministic", d)
					}
				}
				a.Count("determinism repetitions", 2)
				limit := 16 * base.calls
				if !f.judged {
					limit = 400 * base.calls
				}
				dbl, in2 := c17run(f, seed, 2*n, limit, where)
				d["calls_2n"] = dbl.calls
				d["input_2n_len"] = len(in2)
				ratio := float64(dbl.calls) / float64(base.calls)
				d["ratio"] = ratio
				key := fmt.Sprintf("%s | %s | n=%03d", f.name, where, n)
				a.SetMax("ratio x1000: "+key, int64(ratio*1000))
				// cross-process determinism: both replicas (different worker processes) record the same count
				if v == 0 {
					a.SetMax("calls "+key, int64(base.calls))
					a.SetMax("-calls "+key, -int64(base.calls))
				}
				if dbl.over && dbl.capped {
					a.Count("inconclusive:absolute call budget of 3*10^7 reached", 1)
					break
				}
				switch {
				case dbl.panicv != "":
					d["panic"] = dbl.panicv
					a.Violate("panic", "panic", d)
				case !f.judged:
					a.Count("information-only pairs (ambiguous inputs)", 1)
				case dbl.over || dbl.calls > 16*base.calls:
					a.Violate("doubling-multiplies-calls-by-more-than-16", "doubling-multiplies-calls-by-more-than-16", d)
				case !dbl.ok && where == "valid":
					a.Violate("family-input-not-parsed", "family-input-not-parsed", d)
				default:
					a.Count("judged pairs within the bound", 1)
					a.NonTrivial(fmt.Sprintf("%s/%s/%d/%d", f.name, where, seed, n))
					if where != "valid" {
						a.Count("judged pairs on invalid sentences (failing parses)", 1)
					}
					if n == 64 {
						a.Sample(f.name+" / "+where, d)
					}
				}
			}
		}
	}
}

func init() {
	run.Register(&run.Check{
		ID:    "C17",
		Title: "Work stays polynomial on unambiguous grammars, left-recursive or not",
		Plan: func(tier string, seed int64) []run.Job {
			var jobs []run.Job
			nf := len(c17families())
			variants, big, huge := 3, 1, 0
			if tier == "thorough" {
				variants, huge = 12, 1
			}
			for fi := 0; fi < nf; fi++ {
				for rep := 0; rep < 2; rep++ { // two replicas land in different worker processes
					jobs = append(jobs, run.Job{Family: "family", Lo: fi, Seed: seed * 1000, N: variants, P: map[string]int{"big": big, "huge": huge, "replica": rep}})
				}
			}
			return jobs
		},
		Exec: c17exec,
		Finish: func(tier string, a *run.Acc, cov map[string]any) string {
			cov["rule"] = "case = (family, variant with randomised terminals/shape, n) for n in 8..256 (512 thorough): Context.CallCount of a successful Sentence parse of the length-n and length-2n inputs; " +
				"the 2n run executes under a logical limit of 16 x calls(n) enforced by a probe below Memoize. Families: P -> P b | a, mutual pairs and triples, hidden left recursion through Optional/Many/Empty with the prefix absent, " +
				"nested brackets (also with two closers and a trimming wrapper around the memoized reference), right recursion, separated lists (SepBy and left-recursive), expr/term/factor arithmetic; all unambiguous by construction. Hidden left recursion with the prefix present is ambiguous: run and reported, not judged. " +
				"Counts must be identical over three runs with freshly constructed grammars and between two replicas executed in different worker processes. " +
				"non-trivial = a judged pair within the bound; distinct = (family, variant, n)"
			if k := a.Counters["inconclusive:absolute call budget of 3*10^7 reached"]; k > 0 {
				return fmt.Sprintf("%d size ladders stopped at the absolute call budget", k)
			}
			if a.Counters["judged pairs within the bound"] == 0 && a.NViol == 0 {
				return "no pair was judged"
			}
			// cross-process determinism
			for k, v := range a.Max {
				if strings.HasPrefix(k, "calls ") {
					if neg, ok := a.Max["-"+k]; ok && -neg != v {
						a.Violate("call-count-differs-between-processes", "call-count-differs-between-processes", map[string]any{"key": k, "counts": []int64{v, -neg}})
					}
				}
			}
			return ""
		},
		Assumptions: []string{"'beyond a small constant size' is taken as n >= 8", "every judged family is unambiguous by construction; ambiguity would make a super-polynomial count legal"},
	})
}
