package checks

import (
	"bytes"
	ej "encoding/json"
	"fmt"
	"math/rand"
	"reflect"
	"strconv"
	"strings"

	"github.com/opsidian/parsley/combinator"
	"github.com/opsidian/parsley/examples/json/json"
	"github.com/opsidian/parsley/parsley"
	"github.com/opsidian/parsley/text"

	"verifharness/internal/gram"
	"verifharness/internal/run"
)

// C16: the example JSON parser agrees with encoding/json on the supported subset.

type jsonGen struct {
	r *rand.Rand
}

func (g *jsonGen) ws(nl bool) string {
	opts := []string{"", "", " ", "\t", "  "}
	if nl {
		opts = append(opts, "\n", " \n ", "\r\n", "\n\n", "\t\n")
	}
	return opts[g.r.Intn(len(opts))]
}

func (g *jsonGen) str() string {
	r := g.r
	var sb strings.Builder
	sb.WriteByte('"')
	n := r.Intn(6)
	if r.Intn(8) == 0 {
		n = 0 // empty strings / empty keys
	}
	for i := 0; i < n; i++ {
		switch r.Intn(12) {
		case 0:
			sb.WriteString(`\"`)
		case 1:
			sb.WriteString(`\\`)
		case 2:
			sb.WriteString([]string{`\b`, `\f`, `\n`, `\r`, `\t`}[r.Intn(5)])
		case 3:
			sb.WriteString(fmt.Sprintf(`\u%04x`, []int{0x41, 0xe9, 0x20ac, 0x0, 0x7f, 0xfffd, 0x22, 0x5c, 0xd7ff, 0xe000, 0xffff}[r.Intn(11)]))
		case 4:
			sb.WriteString(fmt.Sprintf(`\u%04X`, []int{0xE9, 0x20AC, 0xABCD}[r.Intn(3)]))
		case 5:
			sb.WriteString([]string{"é", "€", "😀", "'", "`", " ", "/", "\u007f", "�"}[r.Intn(9)])
		default:
			sb.WriteByte(byte('a' + r.Intn(26)))
		}
	}
	sb.WriteByte('"')
	return sb.String()
}

func (g *jsonGen) number() string {
	r := g.r
	switch r.Intn(6) {
	case 0:
		return strconv.FormatInt(r.Int63n(2000)-1000, 10)
	case 1:
		return strconv.FormatInt(int64(r.Uint64()), 10)
	case 2:
		return []string{"0", "-0", "9223372036854775807", "-9223372036854775808", "1", "-1"}[r.Intn(6)]
	default:
		s := strconv.FormatFloat((r.Float64()-0.5)*float64(uint64(1)<<uint(r.Intn(50))), 'f', 1+r.Intn(6), 64)
		if r.Intn(3) == 0 {
			s += []string{"e", "E"}[r.Intn(2)] + []string{"", "+", "-"}[r.Intn(3)] + strconv.Itoa(r.Intn(280))
		}
		return s
	}
}

func (g *jsonGen) value(d int) string {
	r := g.r
	k := r.Intn(10)
	if d <= 0 && k >= 7 {
		k = r.Intn(7)
	}
	switch k {
	case 0:
		return g.str()
	case 1, 2, 3:
		return g.number()
	case 4:
		return "true"
	case 5:
		return "false"
	case 6:
		return "null"
	case 7, 8:
		n := r.Intn(4)
		if r.Intn(6) == 0 {
			n = r.Intn(10)
		}
		if d >= 1 && r.Intn(40) == 0 {
			n = 20 + r.Intn(40) // size diversity: long lists reach code short ones never execute
		}
		var sb strings.Builder
		sb.WriteString("[")
		for i := 0; i < n; i++ {
			if i > 0 {
				sb.WriteString(g.ws(false) + ",")
			}
			sb.WriteString(g.ws(true) + g.value(d-1))
		}
		sb.WriteString(g.ws(true) + "]")
		return sb.String()
	default:
		n := r.Intn(4)
		if r.Intn(6) == 0 {
			n = r.Intn(10)
		}
		var sb strings.Builder
		sb.WriteString("{")
		var keys []string
		for i := 0; i < n; i++ {
			if i > 0 {
				sb.WriteString(g.ws(false) + ",")
			}
			key := g.str()
			if len(keys) > 0 && r.Intn(4) == 0 {
				key = keys[r.Intn(len(keys))] // duplicate key
			}
			keys = append(keys, key)
			sb.WriteString(g.ws(true) + key + g.ws(false) + ":" + g.ws(true) + g.value(d-1))
		}
		sb.WriteString(g.ws(true) + "}")
		return sb.String()
	}
}

// bigDoc: documents whose size is in one dimension far beyond what value() produces: thousands of elements or keys,
// strings of hundreds to tens of thousands of bytes, nesting of 30-60 levels
func (g *jsonGen) bigDoc() string {
	r := g.r
	var sb strings.Builder
	sb.WriteString(g.ws(true))
	switch r.Intn(5) {
	case 0:
		n := []int{255, 256, 257, 300, 1000, 5000}[r.Intn(6)]
		sb.WriteString("[")
		for i := 0; i < n; i++ {
			if i > 0 {
				sb.WriteString(g.ws(false) + ",")
			}
			sb.WriteString(g.ws(true) + g.value(0))
		}
		sb.WriteString(g.ws(true) + "]")
	case 1:
		n := []int{255, 256, 257, 300, 1000, 2000}[r.Intn(6)]
		sb.WriteString("{")
		for i := 0; i < n; i++ {
			if i > 0 {
				sb.WriteString(g.ws(false) + ",")
			}
			key := fmt.Sprintf("\"k%d\"", r.Intn(n)) // repeated keys among many
			sb.WriteString(g.ws(true) + key + g.ws(false) + ":" + g.ws(true) + g.value(0))
		}
		sb.WriteString(g.ws(true) + "}")
	case 2:
		d := 30 + r.Intn(31)
		var closers []string
		for i := 0; i < d; i++ {
			if r.Intn(2) == 0 {
				sb.WriteString("[" + g.ws(true))
				if r.Intn(3) == 0 {
					sb.WriteString(g.value(0) + g.ws(false) + "," + g.ws(true))
				}
				closers = append(closers, "]")
			} else {
				sb.WriteString("{" + g.ws(true) + g.str() + g.ws(false) + ":" + g.ws(true))
				closers = append(closers, "}")
			}
		}
		sb.WriteString(g.value(0))
		for i := len(closers) - 1; i >= 0; i-- {
			sb.WriteString(g.ws(true) + closers[i])
		}
	case 3:
		n := []int{255, 256, 300, 4096, 20000}[r.Intn(5)]
		sb.WriteString("[" + g.ws(true) + "\"")
		for sb.Len() < n {
			s := g.str()
			sb.WriteString(s[1 : len(s)-1])
		}
		sb.WriteString("\"" + g.ws(true) + "]")
	default:
		rows, cols := 20+r.Intn(100), 5+r.Intn(50)
		sb.WriteString("[")
		for i := 0; i < rows; i++ {
			if i > 0 {
				sb.WriteString(",")
			}
			sb.WriteString(g.ws(true) + "[")
			for k := 0; k < cols; k++ {
				if k > 0 {
					sb.WriteString("," + g.ws(false))
				}
				sb.WriteString(g.number())
			}
			sb.WriteString("]")
		}
		sb.WriteString(g.ws(true) + "]")
	}
	sb.WriteString(g.ws(true))
	return sb.String()
}

func (g *jsonGen) doc(depth int) string {
	return g.ws(true) + g.value(depth) + g.ws(true)
}

func jsonNorm(v interface{}) interface{} {
	switch x := v.(type) {
	case ej.Number:
		s := string(x)
		if strings.ContainsAny(s, ".eE") {
			f, err := strconv.ParseFloat(s, 64)
			if err != nil {
				return "OUT-OF-RANGE " + s
			}
			return f
		}
		i, err := strconv.ParseInt(s, 10, 64)
		if err != nil {
			return "OUT-OF-RANGE " + s
		}
		return i
	case []interface{}:
		out := make([]interface{}, len(x))
		for i := range x {
			out[i] = jsonNorm(x[i])
		}
		return out
	case map[string]interface{}:
		out := map[string]interface{}{}
		for k, e := range x {
			out[k] = jsonNorm(e)
		}
		return out
	}
	return v
}

// jsonReference decodes a document with encoding/json; err != nil also when there is trailing input
func jsonReference(doc []byte) (interface{}, error) {
	var want interface{}
	dec := ej.NewDecoder(bytes.NewReader(doc))
	dec.UseNumber()
	if err := dec.Decode(&want); err != nil {
		return nil, err
	}
	if _, err := dec.Token(); err == nil {
		return nil, fmt.Errorf("trailing input")
	} else if err.Error() != "EOF" {
		return nil, fmt.Errorf("trailing input: %v", err)
	}
	return jsonNorm(want), nil
}

// c16before: half of the documents are a later file of a set that holds 1-2 earlier files (a batch of documents
// registered in one file set)
func c16before(doc string) []int {
	h := run.Hash("c16|" + doc)
	if h%2 == 0 {
		return nil
	}
	return []int{int(h>>8) % 41, int(h>>16) % 9}[:1+int(h>>24)%2]
}

func jsonParsley(p parsley.Parser, doc []byte, before []int) (got interface{}, err error, pan string) {
	defer func() {
		if r := recover(); r != nil {
			pan = fmt.Sprint(r)
		}
	}()
	fs := parsley.NewFileSet()
	for i, n := range before {
		fs.AddFile(text.NewFile(fmt.Sprintf("p%d", i), make([]byte, n)))
	}
	f := gram.NewFileFrom("f", doc)
	rd := placeFile(fs, f, len(doc)%2 == 1)
	got, err = parsley.Evaluate(parsley.NewContext(fs, rd), p)
	// the same File evaluated again (a second pass over one document): nothing may have changed
	got2, err2 := parsley.Evaluate(parsley.NewContext(fs, text.NewReader(f)), p)
	if (err == nil) != (err2 == nil) || (err != nil && err.Error() != err2.Error()) || !reflect.DeepEqual(got, got2) {
		pan = fmt.Sprintf("second evaluation of the same File differs: first (%#v, %v), second (%#v, %v)", got, err, got2, err2)
	}
	// one tree evaluated twice (a parsed document is a value that can be evaluated again): evaluation must not change it
	if err == nil {
		if node, perr := parsley.Parse(parsley.NewContext(fs, text.NewReader(f)), p); perr == nil {
			v1, e1 := parsley.EvaluateNode(nil, node)
			v2, e2 := parsley.EvaluateNode(nil, node)
			if e1 != nil || e2 != nil || !reflect.DeepEqual(v1, got) || !reflect.DeepEqual(v2, got) {
				pan = fmt.Sprintf("second evaluation of the same tree differs: Evaluate gave %#v, the tree evaluates to (%#v, %v) and then (%#v, %v)", got, v1, e1, v2, e2)
			}
		}
	}
	if now := readerBytes(f, rd); now != string(specNormalise(doc)) {
		pan = fmt.Sprintf("the File's bytes changed during evaluation: %q", now)
	}
	return
}

func c16exec(j run.Job, a *run.Acc) {
	r := rand.New(rand.NewSource(j.Seed))
	g := &jsonGen{r: r}
	p := combinator.Sentence(text.Trim(json.NewParser()))
	for it := 0; it < j.N; it++ {
		doc := g.doc(1 + r.Intn(j.Param("depth", 4)))
		if j.Family == "valid" && r.Intn(60) == 0 {
			doc = g.bigDoc()
		}
		if !a.Begin() {
			continue
		}
		if j.Family == "valid" {
			a.Count("documents", 1)
			if len(doc) > 1000 {
				a.Count("big documents (thousands of elements / keys, long strings, 30-60 levels)", 1)
				a.SetMax("document bytes", int64(len(doc)))
			}
			want, jerr := jsonReference([]byte(doc))
			if jerr != nil {
				a.Note("generator produced a document encoding/json rejects: %q (%v)", doc, jerr)
				a.Count("generator rejects (not judged)", 1)
				continue
			}
			got, perr, pan := jsonParsley(p, []byte(doc), c16before(doc))
			d := map[string]any{"document": trunc(doc, 3000), "document_bytes": len(doc)}
			switch {
			case strings.HasPrefix(pan, "second evaluation") || strings.HasPrefix(pan, "the File's bytes"):
				d["observed"] = pan
				a.Violate("state-leaks-between-evaluations-of-one-file", "state-leaks-between-evaluations-of-one-file", d)
			case pan != "":
				d["panic"] = pan
				a.Violate("panic", "panic", d)
			case perr != nil:
				d["error"] = perr.Error()
				a.Violate("supported-document-rejected", "supported-document-rejected", d)
			case !reflect.DeepEqual(want, got):
				d["encoding_json"] = fmt.Sprintf("%#v", want)
				d["parsley"] = fmt.Sprintf("%#v", got)
				a.Violate("value-differs", "value-differs", d)
			default:
				a.Count("values equal to encoding/json", 1)
				if len(doc) > 1000 {
					// a sample of corruptions of the big document (every-byte corruption would be quadratic): truncations,
					// dangling / doubled separators and dropped separators at random places outside strings
					inside := make([]bool, len(doc)+1)
					in := false
					var seps, closers []int
					for k := 0; k < len(doc); k++ {
						inside[k] = in
						switch {
						case in && doc[k] == '\\':
							k++
							if k < len(doc) {
								inside[k] = true
							}
						case doc[k] == '"':
							in = !in
						case !in && (doc[k] == ',' || doc[k] == ':'):
							seps = append(seps, k)
						case !in && (doc[k] == ']' || doc[k] == '}'):
							closers = append(closers, k)
						}
					}
					var muts []string
					for q := 0; q < 3; q++ {
						muts = append(muts, doc[:r.Intn(len(doc))])
						if len(closers) > 0 {
							k := closers[r.Intn(len(closers))]
							muts = append(muts, doc[:k]+","+doc[k:])
						}
						if len(seps) > 0 {
							k := seps[r.Intn(len(seps))]
							const numeric = "0123456789.+-eE"
							if !(k > 0 && k+1 < len(doc) && strings.IndexByte(numeric, doc[k-1]) >= 0 && strings.IndexByte(numeric, doc[k+1]) >= 0) {
								muts = append(muts, doc[:k]+doc[k+1:])
							}
							if doc[k] == ',' {
								muts = append(muts, doc[:k]+","+doc[k:])
							}
						}
					}
					for _, m := range muts {
						if _, jerr := jsonReference([]byte(m)); jerr == nil {
							continue
						}
						a.Count("corruptions of big documents judged", 1)
						got, perr, pan := jsonParsley(p, []byte(m), c16before(m))
						if pan != "" || perr == nil {
							dd := map[string]any{"document": trunc(m, 3000), "document_bytes": len(m), "original_bytes": len(doc)}
							if pan != "" {
								dd["panic"] = pan
								a.Violate("panic-on-corrupt-document", "panic-on-corrupt-document", dd)
							} else {
								dd["parsley"] = trunc(fmt.Sprintf("%#v", got), 600)
								a.Violate("corrupt-document-accepted", "corrupt-document-accepted", dd)
							}
						}
					}
				}
				if strings.ContainsAny(doc, "[{") {
					a.NonTrivial(doc)
					a.Sample("valid", doc)
				}
			}
			continue
		}
		// corruptions: truncation at every byte, dropped separators, appended garbage
		var muts []string
		for k := 0; k < len(doc); k++ {
			muts = append(muts, doc[:k])
		}
		for k := 0; k < len(doc); k++ {
			if doc[k] == ',' || doc[k] == ':' {
				// dropping a separator that directly joins two numbers makes ONE lexeme (e.g. "-0,980.80" -> "-0980.80"),
				// which is not a missing separator between two values any more but number syntax outside the subset
				const numeric = "0123456789.+-eE"
				if k > 0 && k+1 < len(doc) && strings.IndexByte(numeric, doc[k-1]) >= 0 && strings.IndexByte(numeric, doc[k+1]) >= 0 {
					continue
				}
				muts = append(muts, doc[:k]+doc[k+1:])
			}
		}
		muts = append(muts, doc+"x", doc+",", doc+" 1", doc+"]", doc+"}", doc+"\"", "["+doc, doc+" "+doc)
		// one stray byte inserted anywhere (lone CR, quote, bracket, letter): judged only when encoding/json rejects the result.
		// Bytes that can turn a token into syntax outside the subset are not used: ',' and ':' split a number into ".6" / "06.3",
		// a backslash makes Go-only escapes such as \v, and + digits / form feed are number / whitespace syntax parsley accepts.
		const stray = "\r\"q]}[" // 'q', not 'x': "\x.." after a backslash would be a Go-only escape
		// inside[k]: an insertion at offset k lands inside a string literal. There only CR and 'q' are inserted: a quote or
		// bracket inside a string can re-pair the backslashes that follow and so create Go-only escapes (\v, \a, \x..)
		inside := make([]bool, len(doc)+1)
		in := false
		for k := 0; k < len(doc); k++ {
			inside[k] = in
			switch {
			case in && doc[k] == '\\':
				k++
				if k < len(doc) {
					inside[k] = true
				}
			case doc[k] == '"':
				in = !in
			}
		}
		// separators where no element follows or precedes: a dangling one before a closer, a leading one after an opener,
		// a doubled one (never inside a string, never next to a number's own characters)
		for k := 0; k < len(doc); k++ {
			if inside[k] {
				continue
			}
			switch doc[k] {
			case ']', '}':
				muts = append(muts, doc[:k]+","+doc[k:], doc[:k]+", "+doc[k:])
			case '[', '{':
				muts = append(muts, doc[:k+1]+","+doc[k+1:])
			case ',':
				muts = append(muts, doc[:k]+","+doc[k:])
			}
		}
		for k := 0; k < 6 && len(doc) > 0; k++ {
			at := r.Intn(len(doc) + 1)
			ch := stray[r.Intn(len(stray))]
			if inside[at] && ch != '\r' && ch != 'q' {
				ch = "\rq"[r.Intn(2)]
			}
			muts = append(muts, doc[:at]+string(ch)+doc[at:])
		}
		judged := 0
		for _, m := range muts {
			if _, jerr := jsonReference([]byte(m)); jerr == nil {
				a.Count("corruptions that are still JSON (not judged)", 1)
				continue
			}
			judged++
			a.Count("corrupted documents judged", 1)
			got, perr, pan := jsonParsley(p, []byte(m), c16before(m))
			if pan != "" || perr == nil {
				d := map[string]any{"document": m, "original": doc}
				if pan != "" {
					d["panic"] = pan
					a.Violate("panic-on-corrupt-document", "panic-on-corrupt-document", d)
				} else {
					d["parsley"] = fmt.Sprintf("%#v", got)
					a.Violate("corrupt-document-accepted", "corrupt-document-accepted", d)
				}
			}
		}
		if judged > 0 {
			a.NonTrivial(doc)
			a.Sample("corrupted", map[string]any{"original": doc, "corruptions_judged": judged})
		}
	}
}

func init() {
	run.Register(&run.Check{
		ID:    "C16",
		Title: "The example JSON parser agrees with encoding/json on the supported subset",
		Plan: func(tier string, seed int64) []run.Job {
			var jobs []run.Job
			n, per := 16, 4000
			if tier == "thorough" {
				n, per = 64, 25000
			}
			for i := 0; i < n; i++ {
				jobs = append(jobs, run.Job{Family: "valid", Seed: seed*100000 + int64(i), N: per, P: map[string]int{"depth": 5}})
				jobs = append(jobs, run.Job{Family: "corrupt", Seed: seed*100000 + 50000 + int64(i), N: per / 8, P: map[string]int{"depth": 4}})
			}
			return jobs
		},
		Exec: c16exec,
		Finish: func(tier string, a *run.Acc, cov map[string]any) string {
			cov["rule"] = "case = a generated document of the supported subset (one valid document in 60 is BIG: 255-5000 array elements, 255-2000 object keys with repeats, strings of up to 20000 bytes, 30-60 nesting levels, tables of up to 120x55 numbers): objects (duplicate and empty keys), arrays, strings with \\\" \\\\ \\b \\f \\n \\r \\t \\uXXXX (non-surrogate) and raw UTF-8, " +
				"int64 integers without leading zeros, decimals with fraction and optional exponent within float64 range, true/false/null, whitespace only where the grammar's modes permit it, nesting <= 6. " +
				"Oracle: encoding/json Decoder with UseNumber, numbers normalised to int64/float64, reflect.DeepEqual with Evaluate(Sentence(Trim(json.NewParser()))). " +
				"'corrupt': truncation at EVERY byte, every dropped ','/':', dangling / leading / doubled separators at every bracket, appended garbage, doubled documents; when encoding/json rejects the result parsley must return an error (value or panic = violation). " +
				"non-trivial = a document with a container compared equal, or a document with at least one judged corruption"
			if a.Counters["values equal to encoding/json"] == 0 || a.Counters["corrupted documents judged"] == 0 {
				return "the workload did not reach both halves"
			}
			if a.Counters["generator rejects (not judged)"]*20 > a.Counters["documents"] {
				return "too many generated documents are not JSON"
			}
			return ""
		},
		Assumptions: []string{"encoding/json is the reference for the supported subset", "syntax outside the subset (\\/ escapes, surrogate pairs, raw control characters, lone CR, form feed, leading '+', hex/octal numbers) is not generated"},
	})
}
