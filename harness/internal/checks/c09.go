package checks

import (
	"bytes"
	"fmt"
	"math/rand"
	"os"
	"path/filepath"
	"regexp"
	"sort"
	"unicode/utf8"

	"github.com/opsidian/parsley/parsley"
	"github.com/opsidian/parsley/text"

	"verifharness/internal/gram"
	"verifharness/internal/run"
)

// C09: text reader primitives match a byte-level specification and stay in
// bounds. Every primitive is evaluated at EVERY position 0..len of generated
// files and compared with loop-and-compare specifications.

func specNormalise(b []byte) []byte {
	out := make([]byte, 0, len(b))
	for i := 0; i < len(b); i++ {
		if b[i] == '\r' && i+1 < len(b) && b[i+1] == '\n' {
			continue
		}
		out = append(out, b[i])
	}
	return out
}

// specHasPrefix: the bytes at the cursor have this prefix
func specHasPrefix(c []byte, cur int, s []byte) bool {
	if cur+len(s) > len(c) {
		return false
	}
	for i := range s {
		if c[cur+i] != s[i] {
			return false
		}
	}
	return true
}

// placeFile adds f to fs and creates its reader. Both legal construction orders are used (readerFirst:
// NewFile, NewReader, AddFile - the order of the repository's own JSON test; otherwise NewFile, AddFile, NewReader)
func placeFile(fs *parsley.FileSet, f *text.File, readerFirst bool) *text.Reader {
	var rd *text.Reader
	if readerFirst {
		rd = text.NewReader(f)
	}
	fs.AddFile(f)
	if rd == nil {
		rd = text.NewReader(f)
	}
	return rd
}

func specIsWs(b byte) bool { return b == ' ' || b == '\t' || b == '\n' || b == '\f' }

// specWsRun: end of the whitespace run starting at cur and the first line break in it (-1: none)
func specWsRun(c []byte, cur int) (end int, nl int) {
	end, nl = cur, -1
	for end < len(c) && specIsWs(c[end]) {
		if (c[end] == '\n' || c[end] == '\f') && nl < 0 {
			nl = end
		}
		end++
	}
	return
}

var wsMessages = map[int]string{0: "whitespaces are not allowed", 1: "new line is not allowed", 3: "was expecting a new line"}

// specSkipWs: expected (new offset, error offset or -1, message)
func specSkipWs(c []byte, cur int, mode int) (int, int, string) {
	end, nl := specWsRun(c, cur)
	switch mode {
	case 0:
		if end > cur {
			return end, cur, wsMessages[0]
		}
	case 1:
		if nl >= 0 {
			return end, nl, wsMessages[1]
		}
	case 3:
		if nl < 0 {
			return end, end, wsMessages[3]
		}
	}
	return end, -1, ""
}

var c09pieces = []string{"a", "b", "_", "1", "Z", " ", "\t", "\n", "\r\n", "\r", "\f", "é", "€", "😀", "\xff", "\xc3", "\xe2\x82", "ab", "foo", ".", "\"", "0", "/*", "*/", "/", "px", "7"}
var c09runes = []rune{'a', 'b', ' ', '\n', '\r', 'é', '€', '😀', 'x', 0x7f, 0x80, 0xff, utf8.RuneError, '_'}
var c09exprs = []string{"a+", "[ab]+", "\\s+", "é|€", "fo+", "[^a]", "a|ab", "(a)(b)?", ".", "\\w+", "(?s).", "[\\x00-\\x{10FFFF}]", "\\pL+", "a*b", "(\\d)(\\D)?",
	// a preferred alternative whose end lies far ahead and a short fallback; an optional tail after a long run
	"/\\*[^*]*\\*/|/", "[0-9]+(?:\\s*px)?", "\"[^\"]*\"",
	// expressions the user anchored himself: a leading ^ binds to the first branch of a top-level alternation only
	"^a|b", "^[ab]+|é", "^(a)|(b)"}

func c09exec(j run.Job, a *run.Acc) {
	r := rand.New(rand.NewSource(j.Seed))
	res := map[string]*regexp.Regexp{}
	for _, ex := range c09exprs {
		res[ex] = regexp.MustCompile(`\A(?:` + ex + `)`)
	}
	for it := 0; it < j.N; it++ {
		var raw []byte
		for i, k := 0, r.Intn(9); i < k; i++ {
			if r.Intn(5) == 0 {
				raw = append(raw, byte(r.Intn(256))) // any byte at all: control bytes, NUL, 0x80-0xff
				continue
			}
			raw = append(raw, c09pieces[r.Intn(len(c09pieces))]...)
		}
		if j.Family == "byte-sweep" {
			// every byte value in turn, after a word / before a word / alone: byte classes (word, whitespace, rune lead) are
			// predicates over all 256 values
			b := byte(it % 256)
			word := []string{"nil", "ab", "_1", "Z", "true", "0"}[(it/256)%6]
			switch (it / 1536) % 3 {
			case 0:
				raw = append([]byte("x "+word), b, ' ', 'y')
			case 1:
				raw = append([]byte{b}, word...)
			default:
				raw = append([]byte(word), b)
			}
		}
		long := j.Family == "long"
		if long {
			// LONG files: tokens of hundreds to tens of thousands of bytes (words, digit runs, whitespace runs, comments,
			// strings), so that matches, arguments and the file itself cross 256, 4 KiB, 32 KiB and 64 KiB
			raw = raw[:0]
			unit := []int{40, 300, 300, 700, 5000, 40000}[r.Intn(6)]
			for i, k := 0, 2+r.Intn(6); i < k; i++ {
				n := 1 + r.Intn(unit)
				if r.Intn(3) == 0 {
					n = []int{255, 256, 257, 300, 4095, 4096, 4097}[r.Intn(7)]
				}
				switch r.Intn(8) {
				case 0:
					raw = append(raw, bytes.Repeat([]byte{'a'}, n)...)
				case 1:
					raw = append(raw, bytes.Repeat([]byte{"0123456789"[r.Intn(10)]}, n)...)
					raw = append(raw, bytes.Repeat([]byte{' '}, []int{0, 1, 300}[r.Intn(3)])...)
					raw = append(raw, "px"[:r.Intn(3)]...)
				case 2:
					raw = append(raw, bytes.Repeat([]byte{" \t\n\f"[r.Intn(4)]}, n)...)
				case 3:
					raw = append(append(append(raw, "/*"...), bytes.Repeat([]byte{'c'}, n)...), "*/"[:r.Intn(3)]...)
				case 4:
					raw = append(append(append(raw, '"'), bytes.Repeat([]byte{'s'}, n)...), "\""[:r.Intn(2)]...)
				case 5:
					raw = append(raw, bytes.Repeat([]byte("é"), n/2+1)...)
				case 6:
					raw = append(raw, bytes.Repeat([]byte("\r\n"), n/2+1)...)
				default:
					for q := 0; q < n; q++ {
						raw = append(raw, c09pieces[r.Intn(len(c09pieces))]...)
					}
				}
				if r.Intn(2) == 0 {
					raw = append(raw, " \n;"[r.Intn(3)])
				}
			}
		}
		nPre := r.Intn(4)
		pre := make([]int, nPre)
		for i := range pre {
			pre[i] = r.Intn(25)
		}
		if r.Intn(20) == 0 || (long && r.Intn(3) == 0) {
			// after a large file: base offsets around and beyond 2^16 ... 2^40
			pre = append(pre, gram.BigOffsets[r.Intn(len(gram.BigOffsets))])
		}
		post := r.Intn(2)
		seedCase := r.Int63()
		if !a.Begin() {
			continue
		}
		rc := rand.New(rand.NewSource(seedCase))
		c := specNormalise(raw)
		fs := parsley.NewFileSet()
		for i, n := range pre {
			fs.AddFile(gram.Filler(fmt.Sprintf("pre%d", i), n, 0))
		}
		mine := append([]byte{}, raw...) // the caller's own buffer ...
		f := text.NewFile("f", mine)
		if long && seedCase%3 == 0 {
			// the same bytes as a file on disk, loaded with text.ReadFile
			if dir, derr := os.MkdirTemp(run.OutRoot(), "c09-readfile-"); derr == nil {
				path := filepath.Join(dir, "f")
				if os.WriteFile(path, raw, 0o644) == nil {
					lf, rerr := text.ReadFile(path)
					if rerr != nil || lf == nil {
						a.Violate("ReadFile", "ReadFile-fails-on-a-readable-file", map[string]any{"bytes": len(raw), "error": fmt.Sprint(rerr)})
					} else {
						f = lf
						a.Count("long files loaded from disk with text.ReadFile", 1)
					}
					// a path that does not exist: an error and no file, never a panic
					func() {
						defer func() {
							if e := recover(); e != nil {
								a.Violate("ReadFile", "ReadFile-panics-on-a-missing-file", map[string]any{"panic": fmt.Sprint(e)})
							}
						}()
						if mf, merr := text.ReadFile(filepath.Join(dir, "missing")); merr == nil || mf != nil {
							a.Violate("ReadFile", "ReadFile-of-a-missing-file-returns-no-error", map[string]any{"file_is_nil": mf == nil, "error": fmt.Sprint(merr)})
						} else {
							a.Count("missing files: ReadFile returned an error and no file", 1)
						}
					}()
				}
				os.RemoveAll(dir)
			}
		}
		for i := range mine { // ... which the caller reuses for something else right after NewFile: the file must have its own copy
			mine[i] ^= 0x5a
		}
		var rd *text.Reader
		if seedCase%2 == 1 { // both legal construction orders: reader before / after the file joins the set
			rd = text.NewReader(f)
		}
		fs.AddFile(f)
		if post == 1 {
			fs.AddFile(text.NewFile("post", []byte("zzzz")))
		}
		if rd == nil {
			rd = text.NewReader(f)
		}
		base := int(f.Pos(0))
		a.Count("files", 1)
		d := func(what string, extra map[string]any) map[string]any {
			m := map[string]any{"content": fmt.Sprintf("%q", c), "raw": fmt.Sprintf("%q", raw), "base_offset": base, "primitive": what}
			for k, v := range extra {
				m[k] = v
			}
			return m
		}
		if f.Len() != len(c) {
			a.Violate("file-length", "file-length", d("File.Len", map[string]any{"got": f.Len(), "want": len(c)}))
		}
		if p0 := rd.Pos(0); int(p0) != base {
			a.Violate("reader-pos", "reader-pos", d("Reader.Pos", map[string]any{"got": int(p0), "want": base}))
		}
		var cursors []int
		if !long {
			for idx := 0; idx <= len(c); idx++ {
				cursors = append(cursors, idx)
			}
		} else {
			// a sample of positions: both ends, the starts of the long tokens (first byte after a change of byte class),
			// the neighbourhood of every multiple of 256 / 4096 / 32768 that has one, and random ones
			mark := map[int]bool{}
			add := func(p int) {
				if p >= 0 && p <= len(c) && !mark[p] && len(cursors) < 400 {
					mark[p] = true
					cursors = append(cursors, p)
				}
			}
			for k := 0; k < 6; k++ {
				add(k)
				add(len(c) - k)
			}
			for p := 1; p < len(c); p++ {
				if c[p] != c[p-1] && (p < 2 || c[p] != c[p-2]) {
					add(p)
					add(p - 1)
				}
			}
			for _, m := range []int{32768, 4096, 256} {
				for p := m; p <= len(c); p += m {
					add(p - 1)
					add(p)
					add(p + 1)
				}
			}
			for k := 0; k < 40; k++ {
				add(rc.Intn(len(c) + 1))
			}
			sort.Ints(cursors)
			a.SetMax("long files: bytes", int64(len(c)))
			a.Count("long files", 1)
		}
		for idx := range cursors {
			cur := cursors[idx]
			if seedCase%4 >= 2 { // half of the files are swept from the end to the start: the order of calls must not matter
				cur = cursors[len(cursors)-1-idx]
			}
			pos := parsley.Pos(base + cur)
			a.Count("positions", 1)
			func() {
				defer func() {
					if e := recover(); e != nil {
						a.Violate("panic", "panic", d("?", map[string]any{"cursor": cur, "panic": fmt.Sprint(e)}))
					}
				}()
				a.Count("primitive calls", 2)
				if got := rd.Remaining(pos); got != len(c)-cur {
					a.Violate("Remaining", "Remaining", d("Remaining", map[string]any{"cursor": cur, "got": got, "want": len(c) - cur}))
				}
				if got := rd.IsEOF(pos); got != (cur == len(c)) {
					a.Violate("IsEOF", "IsEOF", d("IsEOF", map[string]any{"cursor": cur, "got": got}))
				}
				for _, ch := range c09runes {
					enc := []byte(string(ch))
					want := specHasPrefix(c, cur, enc)
					if ch == utf8.RuneError {
						// asking for U+FFFD: documented domain is a rune to match; an invalid byte decodes to it as well (grey, not judged)
						continue
					}
					np, ok := rd.ReadRune(pos, ch)
					a.Count("primitive calls", 1)
					if ok != want || (ok && int(np) != base+cur+len(enc)) || (!ok && np != pos) || int(np) > base+len(c) {
						a.Violate("ReadRune", "ReadRune", d("ReadRune", map[string]any{"cursor": cur, "rune": fmt.Sprintf("%q", ch), "got_pos": int(np) - base, "got_ok": ok, "want_ok": want}))
					}
				}
				// strings: substrings of the content at the cursor, one-bit mutations of them, over-long strings ending past EOF
				lens := []int{1, 2, 3, 4}
				if long {
					lens = append(lens, 255, 256, 257, 300+rc.Intn(200), 4096, 4097+rc.Intn(3000))
				}
				for _, l := range lens {
					var s []byte
					if cur+l <= len(c) {
						s = append(s, c[cur:cur+l]...)
					} else {
						s = append(append(s, c[cur:]...), make([]byte, cur+l-len(c))...)
						for i := len(c) - cur; i < l; i++ {
							s[i] = "az_ \n"[rc.Intn(5)]
						}
					}
					if rc.Intn(3) == 0 {
						s[rc.Intn(len(s))] ^= 1 << uint(rc.Intn(8))
					}
					want := specHasPrefix(c, cur, s)
					np, ok := rd.MatchString(pos, string(s))
					a.Count("primitive calls", 1)
					if ok != want || (ok && int(np) != base+cur+len(s)) || (!ok && np != pos) || int(np) > base+len(c) {
						a.Violate("MatchString", "MatchString", d("MatchString", map[string]any{"cursor": cur, "arg": fmt.Sprintf("%q", s), "got_pos": int(np) - base, "got_ok": ok, "want_ok": want}))
					}
					ascii := true
					for _, b := range s {
						if b >= utf8.RuneSelf {
							ascii = false
						}
					}
					if ascii { // MatchWord's documented domain: non-empty ASCII words
						wantW := want && (cur+len(s) == len(c) || !isWordByte(c[cur+len(s)]))
						np, ok := rd.MatchWord(pos, string(s))
						a.Count("primitive calls", 1)
						if ok != wantW || (ok && int(np) != base+cur+len(s)) || (!ok && np != pos) || int(np) > base+len(c) {
							a.Violate("MatchWord", "MatchWord", d("MatchWord", map[string]any{"cursor": cur, "arg": fmt.Sprintf("%q", s), "got_pos": int(np) - base, "got_ok": ok, "want_ok": wantW}))
						}
						if want && cur+len(s) == len(c) {
							a.Count("words ending exactly at EOF", 1)
						}
					}
				}
				for _, ex := range c09exprs {
					re := res[ex]
					loc := re.FindIndex(c[cur:])
					np, m := rd.ReadRegexp(pos, ex)
					a.Count("primitive calls", 2)
					if loc == nil || loc[1] == 0 {
						if m != nil || np != pos {
							a.Violate("ReadRegexp", "ReadRegexp", d("ReadRegexp", map[string]any{"cursor": cur, "expr": ex, "got": fmt.Sprintf("%q", m), "want": "no match"}))
						}
					} else if m == nil || int(np) != base+cur+loc[1] || string(m) != string(c[cur:cur+loc[1]]) {
						a.Violate("ReadRegexp", "ReadRegexp", d("ReadRegexp", map[string]any{"cursor": cur, "expr": ex, "got": fmt.Sprintf("%q", m), "got_pos": int(np) - base, "want_len": loc[1]}))
					}
					sm := re.FindSubmatch(c[cur:])
					np2, ms := rd.ReadRegexpSubmatch(pos, ex)
					if sm == nil || len(sm[0]) == 0 {
						if ms != nil || np2 != pos {
							a.Violate("ReadRegexpSubmatch", "ReadRegexpSubmatch", d("ReadRegexpSubmatch", map[string]any{"cursor": cur, "expr": ex, "want": "no match"}))
						}
					} else {
						ok := ms != nil && int(np2) == base+cur+len(sm[0]) && len(ms) == len(sm)
						if ok {
							for gi := range sm {
								if string(sm[gi]) != string(ms[gi]) {
									ok = false
								}
							}
						}
						if !ok {
							a.Violate("ReadRegexpSubmatch", "ReadRegexpSubmatch", d("ReadRegexpSubmatch", map[string]any{"cursor": cur, "expr": ex, "got": fmt.Sprintf("%q", ms), "want": fmt.Sprintf("%q", sm)}))
						}
					}
				}
				// Readf with custom functions honouring the documented contract
				k := rc.Intn(5)
				shorter := rc.Intn(2) == 0
				noValue := rc.Intn(4) == 0 // a function that skips something (a comment, padding): a match of k bytes without a value
				np, v := rd.Readf(pos, func(b []byte) ([]byte, int) {
					if string(b) != string(c[cur:]) {
						a.Violate("Readf-slice", "Readf-slice", d("Readf", map[string]any{"cursor": cur, "handed": fmt.Sprintf("%q", b)}))
					}
					if k == 0 || len(b) < k {
						return nil, 0
					}
					if noValue {
						return nil, k
					}
					if shorter { // value may be shorter than what was read (e.g. unquoting)
						return b[: k-1 : k-1], k
					}
					return b[:k], k
				})
				a.Count("primitive calls", 1)
				if cur == len(c) || k == 0 || len(c)-cur < k {
					if v != nil || np != pos {
						a.Violate("Readf", "Readf", d("Readf", map[string]any{"cursor": cur, "k": k, "want": "no match"}))
					}
				} else {
					wantV := c[cur : cur+k]
					if shorter {
						wantV = c[cur : cur+k-1]
					}
					if noValue {
						wantV = nil
					}
					if int(np) != base+cur+k || string(v) != string(wantV) {
						a.Violate("Readf", "Readf", d("Readf", map[string]any{"cursor": cur, "k": k, "got_pos": int(np) - base, "got": fmt.Sprintf("%q", v)}))
					}
				}
				for m := 0; m < 4; m++ {
					wantEnd, wantErr, wantMsg := specSkipWs(c, cur, m)
					np, err := rd.SkipWhitespaces(pos, text.WsMode(m))
					a.Count("primitive calls", 1)
					bad := int(np) != base+wantEnd || (err == nil) != (wantErr < 0)
					if !bad && err != nil {
						bad = int(err.Pos()) != base+wantErr || err.Error() != wantMsg || !parsley.IsWhitespaceError(err)
					}
					if bad {
						a.Violate("SkipWhitespaces", "SkipWhitespaces", d("SkipWhitespaces", map[string]any{"cursor": cur, "mode": m, "got_pos": int(np) - base, "got_err": fmt.Sprint(err), "want_end": wantEnd, "want_err_at": wantErr, "want_msg": wantMsg}))
					}
				}
			}()
		}
		if got := readerBytes(f, rd); got != string(c) {
			a.Violate("file-bytes-modified", "file-bytes-modified", d("*", map[string]any{"file_now_reads": fmt.Sprintf("%q", got)}))
		}
		if len(c) > 0 {
			a.NonTrivial(fmt.Sprintf("%q@%d", raw, base))
			a.Sample("file", map[string]any{"raw": fmt.Sprintf("%q", raw), "base_offset": base, "positions": len(c) + 1})
		}
	}
}

func init() {
	run.Register(&run.Check{
		ID:    "C09",
		Title: "Text reader primitives match a byte-level specification and stay in bounds",
		Plan: func(tier string, seed int64) []run.Job {
			var jobs []run.Job
			n, per := 32, 3000
			if tier == "thorough" {
				n, per = 128, 12000
			}
			for i := 0; i < n; i++ {
				jobs = append(jobs, run.Job{Family: "files", Seed: seed*100000 + int64(i), N: per})
			}
			jobs = append(jobs, run.Job{Family: "byte-sweep", Seed: seed*100000 + 90000, N: 256 * 6 * 3})
			nl, perl := 16, 12
			if tier == "thorough" {
				nl, perl = 64, 30
			}
			for i := 0; i < nl; i++ {
				jobs = append(jobs, run.Job{Family: "long", Seed: seed*100000 + 95000 + int64(i), N: perl})
			}
			return jobs
		},
		Exec: c09exec,
		Finish: func(tier string, a *run.Acc, cov map[string]any) string {
			cov["rule"] = "case = one file (pieces: ASCII, '_', digits, space, tab, LF, FF, CRLF, lone CR, 2/3/4-byte runes, truncated runes, 0xff, one piece in five an arbitrary byte 0-255; family byte-sweep: each of the 256 byte values after / before / at the end of six words; family long: files of up to ~200 KB made of tokens of hundreds to tens of thousands of bytes, examined at up to 400 positions - ends, token starts, neighbours of the multiples of 256/4096/32768, random - with arguments of 255-7000 bytes; a third of the long files are written to disk and loaded with text.ReadFile) at a base offset varied by 0-3 preceding files, one case in 20 (a third of the long ones) after a file of 64 KiB ... 2^40 bytes (and an optional following file). " +
				"At EVERY position 0..len (long: the sample): Remaining, IsEOF, ReadRune (14 runes), MatchString/MatchWord (substrings at the cursor, one-bit mutations, over-long strings ending past EOF), " +
				"ReadRegexp/ReadRegexpSubmatch (21 expressions, oracle = regexp package anchored with \\A on the suffix), Readf (contract-honouring functions: value as long as, shorter than, or absent for what was read), SkipWhitespaces in 4 modes " +
				"are compared with loop-and-compare specifications: match => new = old + matched length <= EOF and returned bytes equal the file's, mismatch => old position; an out-of-bounds access shows as a panic. " +
				"non-trivial = non-empty file; distinct = (raw content, base offset)"
			if a.Counters["positions"] == 0 {
				return "no position was examined"
			}
			return ""
		},
		Assumptions: []string{
			"arguments stay inside each primitive's documented domain (non-empty strings, ASCII words, regexps that do not match the empty string, Readf functions honouring their contract)",
			"Go's bounds checks turn any read outside the file's private copy into a panic; ReadRune(U+FFFD) is not judged",
		},
	})
}
