package checks

import (
	"fmt"
	"regexp"
	"strconv"

	"github.com/opsidian/parsley/parsley"

	"verifharness/internal/refsem"
	"verifharness/internal/run"
)

// C06: parse errors point at the furthest failure and render a real line:column.
// Event log from probes around every terminal, End and named alternative;
// oracle: F = max position of a failed terminal/End attempt.

// c06shared: the file set that a quarter of the cases share (reset every 60 files)
var c06shared *parsley.FileSet
var c06sharedN int

var c06re = regexp.MustCompile(`(?s)^failed to parse the input: (.*) at f:(\d+):(\d+)$`)

func c06case(c GCase, a *run.Acc, variant int) {
	if !a.Begin() {
		return
	}
	c.Pos = 0
	a.Count("cases", 1)
	o := sentenceOpts{Named: variant&1 == 1, NameSeqs: variant&2 == 2 && variant&1 == 1, ExplicitEnd: variant&4 == 4}
	o.NameOptionals = o.NameSeqs
	o.Prescan = variant&16 == 16
	if o.Prescan {
		a.Count("cases with an earlier parse on the same context", 1)
	}
	if variant&8 == 8 {
		o.Before = []int{3 + variant%5, variant % 3}[:1+(variant>>4)%2] // one file before: the reader exists before the file joins the set
	}
	if variant&32 == 32 {
		// a document set: this input joins the file set of the worker's earlier inputs, whose errors were rendered through it
		if c06shared == nil || c06sharedN >= 60 {
			c06shared, c06sharedN = parsley.NewFileSet(), 0
		}
		o.SharedSet, o.Before = c06shared, nil
		c06sharedN++
		a.Count("cases parsed as one more file of a set that holds the earlier inputs", 1)
	}
	r := runSentence(c, o)
	a.Count("probe_events", int64(r.Guard.Events))
	vdesc := fmt.Sprintf("named=%v nameSeqs=%v explicitEnd=%v filesBefore=%v", o.Named, o.NameSeqs, o.ExplicitEnd, o.Before)
	d := c.Describe()
	d["variant"] = vdesc
	if r.CtxErrWentBack != "" {
		d["observed"] = r.CtxErrWentBack
		a.Violate("furthest-error-moved-backwards", "furthest-error-moved-backwards", d)
		return
	}
	a.Count("probe events at which the furthest recorded error was checked to be monotone", int64(len(r.Log)))
	switch {
	case r.Budget != "":
		a.Count("inconclusive:budget ("+r.Budget+")", 1)
		return
	case r.Bound != nil:
		a.Count("inconclusive:activation bound exceeded (judged by C02)", 1)
		return
	case r.Panic != "":
		a.Count("inconclusive:panic (judged by C04)", 1)
		return
	case r.Node == nil && r.Err == nil:
		a.Count("inconclusive:neither node nor error (judged by C04)", 1)
		return
	case r.Err == nil:
		a.Count("successful parses (nothing to judge)", 1)
		return
	case r.LogTruncated:
		// the oracle needs the complete attempt log; an explosively ambiguous case with more than 20000 attempts is not judged
		a.Count("inconclusive:attempt log truncated", 1)
		return
	}
	a.Count("failed parses judged", 1)
	F := -1
	failedAt := map[int]map[string]bool{}
	nTerm := 0
	for _, at := range r.Log {
		if !at.Failed {
			continue
		}
		// A failed named alternative counts like a failed terminal: Name() makes it the unit of
		// expectation, and an unproductive named nonterminal (N -> N a | N c) fails at its position
		// without ever trying a terminal there (see DESIGN.md, C06 false alarm).
		if at.Pos > F {
			F = at.Pos
		}
		if at.Terminal {
			nTerm++
		}
		if failedAt[at.Pos] == nil {
			failedAt[at.Pos] = map[string]bool{}
		}
		failedAt[at.Pos][at.What] = true
	}
	a.Count("failed terminal/End attempts logged", int64(nTerm))
	// the attempts themselves against the MEANING of the grammar: the furthest offset at which a complete exploration
	// tries a terminal (or the end of input) that does not match, derived from the reference's ends table. An
	// implementation that tries less - a cache hit that should have been a miss - reports an error consistent with its
	// own attempts and still falls short of this (S18-C06). Base operators and stratified grammars only.
	// (not with names on Optionals: on this library a named Optional fails when its operand does - ReturnError drops a
	// result that comes with an error, section 9a -, so such a build parses another language than the grammar's)
	if !c.G.HasExtendedOps() && !o.NameOptionals {
		if _, _, strat := c.G.Strata(); strat {
			rfe := &refsem.Ref{G: c.G, In: c.In, EndsOnly: true, Cap: 100000}
			if rfe.Compute() {
				if fref, ok := rfe.FurthestFailedTerminal(c.NT); ok {
					fobs := -1
					for _, at := range r.Log {
						if at.Failed && at.Terminal && at.Pos > fobs {
							fobs = at.Pos
						}
					}
					a.Count("cases whose attempts were compared with the reference exploration", 1)
					switch {
					case fobs < fref:
						d["error"] = r.Err.Error()
						d["furthest_failed_terminal_attempt_observed"] = fobs
						d["furthest_failed_terminal_attempt_of_a_complete_exploration"] = fref
						a.Violate("attempts-fall-short-of-a-complete-exploration", "attempts-fall-short-of-a-complete-exploration", d)
						return
					case fobs > fref:
						a.Count("cases in which curtailed levels tried terminals beyond the reference exploration (allowed)", 1)
					}
				}
			}
		}
	}
	if F < 0 {
		F = 0
		a.Count("cases without any failed terminal attempt", 1)
	}
	d["error"] = r.Err.Error()
	d["furthest_failed_attempt"] = F
	m := c06re.FindStringSubmatch(r.Err.Error())
	if m == nil {
		a.Violate("bad-format", "bad-format", d)
		return
	}
	line, _ := strconv.Atoi(m[2])
	col, _ := strconv.Atoi(m[3])
	p := offsetOf(c.In, line, col)
	d["reported_offset"] = p
	if p < 0 {
		a.Violate("line-column-denotes-no-position", "line-column-denotes-no-position", d)
		return
	}
	var exps []string
	for e := range failedAt[p] {
		exps = append(exps, e)
	}
	d["failed_expectations_at_reported_offset"] = exps
	switch {
	case p > F:
		a.Violate("beyond-furthest-failure", "beyond-furthest-failure", d)
		return
	case o.Named && p != F:
		a.Violate("named-but-not-at-furthest-failure", "named-but-not-at-furthest-failure", d)
		return
	case p < F:
		a.Count("unnamed cases reporting before the furthest failure (allowed)", 1)
	default:
		a.Count("cases reporting exactly the furthest failure", 1)
	}
	if m[1] == "was expecting a valid input" {
		// the generic message of parsley.Parse is only legitimate when nothing at all was tried and rejected
		if len(failedAt) > 0 {
			a.Violate("generic-message-although-an-expectation-failed", "generic-message-although-an-expectation-failed", d)
			return
		}
		a.Count("generic message, nothing was tried (pure curtailment)", 1)
	} else if len(failedAt[p]) > 0 {
		if !failedAt[p][m[1]] {
			a.Violate("expectation-did-not-fail-there", "expectation-did-not-fail-there", d)
			return
		}
		a.Count("expectation confirmed in the attempt log", 1)
	}
	if line > 1 {
		a.Count("errors on a line > 1", 1)
	}
	a.NonTrivial(c.Key() + vdesc)
	cls := "unnamed"
	if o.Named {
		cls = "named"
	}
	a.Sample(cls+"/"+famClass(c.Fam), d)
}

func c06plan(tier string, seed int64) []run.Job {
	var jobs []run.Job
	jobs = append(jobs, run.Job{Family: "corpus"})
	nr, per := 16, 400
	maxNodes := 5
	if tier == "thorough" {
		nr, per, maxNodes = 64, 1500, 6
	}
	for i := 0; i < nr; i++ {
		jobs = append(jobs, run.Job{Family: "random", Seed: seed*100000 + int64(i), N: per, P: map[string]int{"strat": 1, "maxlen": 7, "inputs": 6, "nl": 1, "pct": 1}})
		jobs = append(jobs, run.Job{Family: "random", Seed: seed*100000 + 10000 + int64(i), N: per / 4, P: map[string]int{"strat": 0, "maxlen": 7, "inputs": 6, "nl": 1}})
		jobs = append(jobs, run.Job{Family: "mutual", Seed: seed*100000 + 50000 + int64(i), N: per / 4, P: map[string]int{"inputs": 6, "maxlen": 9}})
		// End() inside the grammar ("terminated by ';' or by the end of input"): its failure is not a not-found error
		jobs = append(jobs, run.Job{Family: "random", Seed: seed*100000 + 80000 + int64(i), N: per / 2, P: map[string]int{"strat": 1, "maxlen": 7, "inputs": 6, "nl": 1, "ends": 1, "memoexpr": 0}})
	}
	jobs = append(jobs, enumJobs(maxNodes, false, 4, 300)...)
	jobs = append(jobs, enumJobs(4, true, 4, 300)...)
	return jobs
}

func init() {
	run.Register(&run.Check{
		ID:    "C06",
		Title: "Parse errors point at the furthest failure and render a real line:column",
		Plan:  c06plan,
		Exec: func(j run.Job, a *run.Acc) {
			n := 0
			gramCases(j, func(c GCase) {
				h := run.Hash(fmt.Sprintf("%d/%d", j.Seed, n))
				n++
				v := int(h % 16)
				if (h>>8)%3 == 0 {
					v |= 16 // a successful scan of the bare nonterminal on the same context first
				}
				if (h>>12)%4 == 0 {
					v |= 32 // one more file of a shared set
				}
				c06case(c, a, v)
				c06case(c, a, v^1) // the same case with the other naming
			})
		},
		Finish: func(tier string, a *run.Acc, cov map[string]any) string {
			cov["rule"] = "case = (grammar over single-byte terminals incl. line feeds, non-matching or matching input, naming variant, Sentence or explicit SeqOf(root, End), " +
				"file placement: alone, after other files, or - a quarter of the cases - as one more file of a set that holds the worker's earlier inputs). Probes log every terminal / End / named-alternative attempt {offset, expectation, matched}. For failed parses: the text must match " +
				"'failed to parse the input: <expectation> at f:<line>:<col>'; the offset denoted by line:col (independent line counter) must be <= F = furthest failed " +
				"terminal/End attempt, == F when every Any/Choice is named, and the expectation must be in the log as failed at that offset. " +
				"non-trivial = a failed parse that was judged; distinct = case text + variant"
			if a.Counters["failed parses judged"] == 0 {
				return "no failed parse was judged"
			}
			if a.Counters["expectation confirmed in the attempt log"] == 0 {
				return "no expectation could be confirmed"
			}
			return ""
		},
		Assumptions: []string{
			"End attempts of combinator.Sentence are inferred from the ends of the alternatives the root returned (explicit End probes are used in the other half of the cases)",
			"(nil,nil) outcomes and panics are C04's findings and are skipped here",
		},
	})
}
