package checks

import (
	"fmt"
	"math/rand"
	"strings"

	"github.com/opsidian/parsley/parsley"
	"github.com/opsidian/parsley/text"

	"verifharness/internal/gram"
	"verifharness/internal/run"
)

// C05: left-recursive expression grammars evaluate like a reference evaluator.

// c05eval evaluates raw; the file is the (1+len(before))-th of a shared file set, as when several
// inputs are evaluated in sequence with one file set
func c05eval(a *arithParsers, raw string, before []string, far int) (v interface{}, err error, pan string, calls int) {
	fs := parsley.NewFileSet()
	if far > 0 {
		fs.AddFile(gram.Filler("far", far, '7')) // the set already holds a large file: global positions beyond 2^16 ... 2^40
	}
	for i, b := range before {
		fs.AddFile(text.NewFile(fmt.Sprintf("earlier%d", i), []byte(b)))
	}
	f := gram.NewFileFrom("f", []byte(raw))
	ctx := parsley.NewContext(fs, placeFile(fs, f, (len(raw)+len(before))%2 == 1))
	// the earlier inputs of the set were evaluated (and their errors rendered) before this one
	for p := 1 + far; p < int(f.Pos(0)); p += 3 {
		_ = fs.Position(parsley.Pos(p)).String()
	}
	func() {
		defer func() {
			if e := recover(); e != nil {
				pan = fmt.Sprint(e)
			}
		}()
		root := a.Root
		if c05trimmedEnd {
			root = a.RootTrimmedEnd
		}
		v, err = parsley.Evaluate(ctx, root)
	}()
	return v, err, pan, ctx.CallCount()
}

// c05trimmedEnd: the current job evaluates with the root that ends in a left-trimmed End() instead of Sentence(Trim(expr))
var c05trimmedEnd bool

var c05ws = []string{" ", " ", "\t", "\n", "\r\n", "\f", "  "}

func c05exec(j run.Job, a *run.Acc) {
	r := rand.New(rand.NewSource(j.Seed))
	if n := j.Param("burn", 0); n > 0 {
		// the grammar is constructed late in the life of the process: its Memoize indices are beyond 8 / 10 / 16 bits
		burnParserIndices(n)
		a.Count("jobs whose grammar is built after hundreds to 140000 other memoized parsers", 1)
	}
	c05trimmedEnd = j.Param("trimmedend", 0) == 1
	if c05trimmedEnd {
		a.Count("jobs whose root ends in LeftTrim(End()) instead of Sentence(Trim(expr))", 1)
	}
	baseFirst := j.Param("basefirst", 0) == 1
	ar := newArithOrder(baseFirst)
	if baseFirst {
		a.Count("jobs with the non-recursive alternative listed first", 1)
	}
	for it := 0; it < j.N; it++ {
		g := &arithGen{r: r, maxDepth: 2 + r.Intn(j.Param("depth", 6)), zeroBias: []int{0, 5, 25}[r.Intn(3)], ws: c05ws, longChains: true, overflow: j.Family == "mutated"}
		if g.maxDepth > 4 {
			g.longChains = false // long chains only around shallow operands, the input would get too long otherwise
		}
		ast := g.expr(g.maxDepth)
		var sb strings.Builder
		g.print(ast, &sb)
		if r.Intn(3) == 0 {
			g.gap(&sb) // trailing whitespace
		}
		raw := sb.String()
		nmut := 0
		if j.Family == "mutated" {
			nmut = 1 + r.Intn(2)
		}
		mutated := []byte(raw)
		const alphabet = "0123456789+-*/() \n"
		for m := 0; m < nmut; m++ {
			switch r.Intn(3) {
			case 0:
				if len(mutated) > 0 {
					k := r.Intn(len(mutated))
					mutated = append(mutated[:k], mutated[k+1:]...)
				}
			case 1:
				k := r.Intn(len(mutated) + 1)
				mutated = append(mutated[:k], append([]byte{alphabet[r.Intn(len(alphabet))]}, mutated[k:]...)...)
			default:
				if len(mutated) > 0 {
					mutated[r.Intn(len(mutated))] = alphabet[r.Intn(len(alphabet))]
				}
			}
		}
		if r.Intn(40) == 0 {
			ar = newArith() // a freshly constructed grammar from time to time
		}
		var before []string // earlier inputs registered in the same file set (none in half of the cases)
		if r.Intn(2) == 0 {
			for k := 1 + r.Intn(3); k > 0; k-- {
				before = append(before, []string{"1 + 2 * 3", "7", "", "(4 - 1) / 0\n", strings.Repeat("9 * ", 20) + "1"}[r.Intn(5)])
			}
		}
		far := 0
		if r.Intn(25) == 0 {
			far = gram.BigOffsets[r.Intn(len(gram.BigOffsets))]
		}
		if !a.Begin() {
			continue
		}
		if far > 0 {
			a.Count("cases placed after a file of 64 KiB ... 2^40 bytes", 1)
		}
		if len(raw) > 2000 {
			a.Count("skipped: longer than 2000 bytes", 1)
			continue
		}
		a.Count("cases", 1)
		a.SetMax("input length", int64(len(raw)))
		if j.Family == "generated" {
			// offsets known by construction refer to raw; line/column on the CRLF-normalised content
			norm := string(specNormalise([]byte(raw)))
			want, bad := arithEval(ast)
			v, err, pan, calls := c05eval(ar, raw, before, far)
			a.Count("parser calls", int64(calls))
			d := map[string]any{"input": raw, "calls": calls, "earlier_files_in_the_set": before, "bytes_of_a_large_file_before": far}
			switch {
			case pan != "":
				d["panic"] = pan
				a.Violate("panic", "panic", d)
			case bad != nil:
				// the operator's offset in the normalised content: CRLF pairs before it count once
				off := bad.opAt - strings.Count(raw[:bad.opAt], "\r\n")
				l, c := lineCol(norm, off)
				wantErr := fmt.Sprintf("division by zero at f:%d:%d", l, c)
				d["expected_error"] = wantErr
				a.Count("division by zero cases", 1)
				if l > 1 {
					a.Count("division by zero on a line > 1", 1)
				}
				if err == nil || err.Error() != wantErr {
					d["got_value"] = fmt.Sprint(v)
					d["got_error"] = fmt.Sprint(err)
					a.Violate("interpreter-error-position", "interpreter-error-position", d)
				} else {
					a.NonTrivial(raw)
					a.Sample("division by zero", d)
				}
			case err != nil:
				d["got_error"] = err.Error()
				d["expected_value"] = want
				a.Violate("well-formed-expression-rejected", "well-formed-expression-rejected", d)
			default:
				got, ok := v.(int64)
				if !ok || got != want {
					d["got_value"] = fmt.Sprint(v)
					d["expected_value"] = want
					a.Violate("wrong-value", "wrong-value", d)
				} else {
					a.Count("values compared", 1)
					// cross-check the independent recogniser on the same input (validates the oracle used for mutations)
					if ok2, v2, div := arithRecognise(norm); !ok2 || div >= 0 || v2 != want {
						d["recogniser"] = fmt.Sprint(ok2, v2, div)
						a.Violate("oracle-self-check", "oracle-self-check", d)
					}
					if strings.ContainsAny(raw, "+-*/") {
						a.NonTrivial(raw)
						d["value"] = want
						a.Sample("value", d)
					}
				}
			}
			continue
		}
		// mutated family: the independent recogniser decides
		in := string(mutated)
		norm := string(specNormalise(mutated))
		ok, want, div := arithRecognise(norm)
		v, err, pan, calls := c05eval(ar, in, before, far)
		a.Count("parser calls", int64(calls))
		d := map[string]any{"input": in, "original": raw, "earlier_files_in_the_set": before, "bytes_of_a_large_file_before": far}
		switch {
		case pan != "":
			d["panic"] = pan
			a.Violate("panic", "panic", d)
		case !ok:
			a.Count("ill-formed mutations", 1)
			if err == nil {
				d["got_value"] = fmt.Sprint(v)
				a.Violate("ill-formed-expression-accepted", "ill-formed-expression-accepted", d)
			} else {
				a.NonTrivial(in)
				d["error"] = err.Error()
				a.Sample("ill-formed", d)
			}
		case div >= 0:
			l, c := lineCol(norm, div)
			wantErr := fmt.Sprintf("division by zero at f:%d:%d", l, c)
			a.Count("division by zero cases", 1)
			if err == nil || err.Error() != wantErr {
				d["expected_error"] = wantErr
				d["got_error"] = fmt.Sprint(err)
				a.Violate("interpreter-error-position", "interpreter-error-position", d)
			}
		default:
			a.Count("well-formed mutations", 1)
			if err != nil {
				d["got_error"] = err.Error()
				a.Violate("well-formed-expression-rejected", "well-formed-expression-rejected", d)
			} else if got, isInt := v.(int64); !isInt || got != want {
				d["got_value"] = fmt.Sprint(v)
				d["expected_value"] = want
				a.Violate("wrong-value", "wrong-value", d)
			} else {
				a.Count("values compared", 1)
			}
		}
	}
}

func init() {
	run.Register(&run.Check{
		ID:    "C05",
		Title: "Left-recursive expression grammars evaluate like a reference evaluator",
		Plan: func(tier string, seed int64) []run.Job {
			var jobs []run.Job
			n, per := 16, 600
			depth := 6
			if tier == "thorough" {
				n, per, depth = 64, 1200, 8
			}
			for i := 0; i < n; i++ {
				burn := 0
				if i%4 == 3 {
					burn = []int{200, 520, 1100, 70000, 140000}[(i/4)%5]
				}
				jobs = append(jobs, run.Job{Family: "generated", Seed: seed*100000 + int64(i), N: per, P: map[string]int{"depth": depth, "basefirst": i % 2, "burn": burn, "trimmedend": (i / 2) % 2}})
				jobs = append(jobs, run.Job{Family: "mutated", Seed: seed*100000 + 50000 + int64(i), N: per, P: map[string]int{"depth": depth - 2, "basefirst": (i / 2) % 2, "burn": burn, "trimmedend": i % 2}})
			}
			return jobs
		},
		Exec: c05exec,
		Finish: func(tier string, a *run.Acc, cov map[string]any) string {
			cov["rule"] = "harness grammar from library parts: expr -> expr (+|-) term | term, term -> term (*|/) factor | factor, factor -> Integer | ( expr ), all memoized, tokens left-trimmed, root Sentence(Trim(expr)) or - half of the jobs - SeqOf(expr, LeftTrim(End(), WsSpacesNl)).Bind(Select(0)), half of the jobs with the non-recursive alternative listed first (term | expr op term); " +
				"a quarter of the jobs construct the grammar after 200-140000 other memoized parsers, one case in 25 is placed after a file of 64 KiB ... 2^40 bytes; binary interpreter on int64 reporting division by zero at the operator node. 'generated': expressions printed from a random AST (signed decimal/hex/octal literals, nesting, free whitespace incl. LF/CRLF/FF) " +
				"so value, first division by zero in evaluation order and its line:column are known by construction. 'mutated': 1-2 byte edits; an independent recursive-descent recogniser (C08 integer scanner) decides " +
				"well-formedness, value and error position; ill-formed => error required, never a panic. non-trivial = value/err compared on an input with at least one operator, or an ill-formed input rejected"
			if a.Counters["values compared"] == 0 || a.Counters["division by zero cases"] == 0 || a.Counters["ill-formed mutations"] == 0 {
				return "the workload did not reach values, division by zero and ill-formed inputs"
			}
			return ""
		},
		Assumptions: []string{"Go int64 semantics (wrap-around, truncated division) are the reference arithmetic", "the recogniser in arith.go is cross-checked against the by-construction oracle on every generated expression"},
	})
}
