// Package refsem is the reference semantics of the grammar model: the least
// fixpoint over (nonterminal, position) of the documented combinator rules,
// computed by position descending, stratum ascending and Kleene iteration
// inside a stratum. It shares no code with the library.
package refsem

import (
	"fmt"
	"strconv"
	"strings"

	"verifharness/internal/gram"
)

// Res is one derivation: a canonical tree (empty in ends mode) and its end position.
type Res struct {
	Tree string
	End  int
}

type Ref struct {
	G        *gram.Grammar
	In       string
	EndsOnly bool
	D        [][][]Res // [nt][pos] -> results
	Overflow bool
	Cap      int // maximum number of results per (nonterminal, position)
	MaxSteps int
	steps    int
	order    [][]int
	// Grey: a typed terminal met a spelling the documented syntax is silent about: nothing may be claimed for this case
	Grey bool
}

// LitOracle decides what the typed terminal of the given kind (gram.LitKinds) reads at in[pos:]: verdict 1 = a literal
// ending at end with that value, 0 = nothing, 2 = grey. It is set by the checks package (the byte-level scanners of
// C08, written from the documented syntax, independent of the library).
var LitOracle func(kind int, in string, pos int) (end int, value interface{}, verdict int)

func addRes(rs []Res, r Res) []Res {
	for _, x := range rs {
		if x == r {
			return rs
		}
	}
	return append(rs, r)
}

// Eval evaluates an arbitrary expression at a position against the current table.
func (rf *Ref) Eval(e *gram.Expr, pos int) []Res {
	if rf.Overflow {
		return nil
	}
	switch e.Op {
	case gram.OpRune:
		if pos < len(rf.In) && rf.In[pos] == e.C {
			t := ""
			if !rf.EndsOnly {
				t = fmt.Sprintf("%c@%d-%d", e.C, pos, pos+1)
			}
			return []Res{{t, pos + 1}}
		}
		return nil
	case gram.OpKw:
		if strings.HasPrefix(rf.In[pos:], e.S) {
			t := ""
			if !rf.EndsOnly {
				t = fmt.Sprintf("%s@%d-%d", e.S, pos, pos+len(e.S))
			}
			return []Res{{t, pos + len(e.S)}}
		}
		return nil
	case gram.OpStr:
		// a double-quoted literal: up to the first unescaped quote on the same line, valid for strconv.Unquote
		if pos >= len(rf.In) || rf.In[pos] != '"' {
			return nil
		}
		for q := pos + 1; q < len(rf.In); q++ {
			switch rf.In[q] {
			case '\\':
				q++
			case '\n', '\r':
				return nil
			case '"':
				v, err := strconv.Unquote(rf.In[pos : q+1])
				if err != nil {
					return nil
				}
				t := ""
				if !rf.EndsOnly {
					t = fmt.Sprintf("STRING{%v}@%d-%d", v, pos, q+1)
				}
				return []Res{{t, q + 1}}
			}
		}
		return nil
	case gram.OpLit:
		// a typed terminal: what it reads at pos is decided by the independent byte-level scanners (LitOracle)
		if LitOracle == nil {
			rf.Grey = true
			return nil
		}
		end, val, verdict := LitOracle(int(e.C), rf.In, pos)
		if verdict == 2 {
			rf.Grey = true // the documented syntax is silent about this spelling: nothing is claimed for the case
			return nil
		}
		if verdict != 1 {
			return nil
		}
		t := ""
		if !rf.EndsOnly {
			k := gram.LitKinds[e.C]
			if k.Typed {
				t = fmt.Sprintf("%s{%v}@%d-%d", k.Token, val, pos, end)
			} else {
				t = fmt.Sprintf("%s@%d-%d", k.Token, pos, end)
			}
		}
		return []Res{{t, end}}
	case gram.OpMark:
		t := ""
		if !rf.EndsOnly {
			t = fmt.Sprintf("MARK@%d", pos)
		}
		return []Res{{t, pos}}
	case gram.OpEmpty:
		t := ""
		if !rf.EndsOnly {
			t = fmt.Sprintf("E@%d", pos)
		}
		return []Res{{t, pos}}
	case gram.OpNT:
		return rf.D[e.NT][pos]
	case gram.OpEnd:
		if pos == len(rf.In) {
			t := ""
			if !rf.EndsOnly {
				t = fmt.Sprintf("End@%d", pos)
			}
			return []Res{{t, pos}}
		}
		return nil
	case gram.OpSuppress:
		// SuppressError(p): p's results, whatever happens to its error
		return rf.Eval(e.Kids[0], pos)
	case gram.OpLTrim:
		// LeftTrim(p, mode): the run of whitespace at pos is skipped; p's results from the end of the run count iff the run
		// satisfies the mode (0 none: empty run, 1 spaces: no line break, 2 spaces and newlines: anything, 3: >= 1 line break)
		q, nl := pos, false
		for q < len(rf.In) && (rf.In[q] == ' ' || rf.In[q] == '\t' || rf.In[q] == '\n' || rf.In[q] == '\f') {
			if rf.In[q] == '\n' || rf.In[q] == '\f' {
				nl = true
			}
			q++
		}
		switch e.C {
		case 0:
			if q > pos {
				return nil
			}
		case 1:
			if nl {
				return nil
			}
		case 3:
			if !nl {
				return nil
			}
		}
		return rf.Eval(e.Kids[0], q)
	case gram.OpRTrim:
		// RightTrim(p, WsSpacesNl): every result of p ends after the whitespace run that follows it (this mode never fails)
		var out []Res
		for _, r := range rf.Eval(e.Kids[0], pos) {
			q := r.End
			for q < len(rf.In) && (rf.In[q] == ' ' || rf.In[q] == '\t' || rf.In[q] == '\n' || rf.In[q] == '\f') {
				q++
			}
			out = addRes(out, Res{r.Tree, q})
		}
		return out
	case gram.OpAny:
		var out []Res
		for _, k := range e.Kids {
			for _, r := range rf.Eval(k, pos) {
				out = addRes(out, r)
			}
		}
		return out
	case gram.OpChoice:
		for _, k := range e.Kids {
			if rs := rf.Eval(k, pos); len(rs) > 0 {
				return rs
			}
		}
		return nil
	case gram.OpOpt:
		out := append([]Res{}, rf.Eval(e.Kids[0], pos)...)
		t := ""
		if !rf.EndsOnly {
			t = fmt.Sprintf("E@%d", pos)
		}
		return addRes(out, Res{t, pos})
	default:
		var out []Res
		var path []Res
		var rec func(d int, p int)
		rec = func(d int, p int) {
			rf.steps++
			if rf.steps > rf.MaxSteps {
				rf.Overflow = true
			}
			if rf.Overflow {
				return
			}
			if d > len(rf.In)*2+8 {
				// only possible when a repetition operand matched without consuming input:
				// excluded by the generators' precondition
				rf.Overflow = true
				return
			}
			nx := gram.Lookup(e, d)
			var rs []Res
			if nx != nil {
				rs = rf.Eval(nx, p)
			}
			for _, r := range rs {
				path = append(path[:d], r)
				rec(d+1, r.End)
			}
			if len(rs) == 0 && gram.LenCheck(e, d) {
				t := ""
				if !rf.EndsOnly {
					if d == 0 {
						t = fmt.Sprintf("%s[]@%d-%d", gram.Token(e.Op), p, p)
					} else {
						ks := make([]string, 0, d)
						for _, x := range path[:d] {
							ks = append(ks, x.Tree)
						}
						t = fmt.Sprintf("%s[%s]@%d-%d", gram.Token(e.Op), strings.Join(ks, " "), pos, p)
					}
				}
				out = addRes(out, Res{t, p})
				if len(out) > rf.Cap || len(t) > 800 {
					rf.Overflow = true
				}
			}
		}
		rec(0, pos)
		return out
	}
}

func sameRes(a, b []Res) bool {
	if len(a) != len(b) {
		return false
	}
	for i := range a {
		if a[i] != b[i] {
			return false
		}
	}
	return true
}

// Compute fills the table; it returns false on overflow (too many or too large trees).
func (rf *Ref) Compute() bool {
	n := len(rf.In)
	g := rf.G
	if rf.Cap == 0 {
		rf.Cap = 300
	}
	if rf.MaxSteps == 0 {
		rf.MaxSteps = 300000
	}
	rf.D = make([][][]Res, len(g.NTs))
	for i := range rf.D {
		rf.D[i] = make([][]Res, n+1)
	}
	order, _, _ := g.Strata()
	rf.order = order
	for pos := n; pos >= 0; pos-- {
		for _, comp := range order {
			for iter := 0; ; iter++ {
				changed := false
				for _, i := range comp {
					rs := rf.Eval(g.NTs[i], pos)
					if rf.Overflow {
						return false
					}
					merged := append([]Res{}, rf.D[i][pos]...)
					for _, r := range rs {
						merged = addRes(merged, r)
					}
					if len(merged) > rf.Cap {
						rf.Overflow = true
						return false
					}
					if !sameRes(merged, rf.D[i][pos]) {
						rf.D[i][pos] = merged
						changed = true
					}
				}
				if !changed {
					break
				}
				if iter > 5000 {
					rf.Overflow = true
					return false
				}
			}
		}
	}
	return true
}

// Ends returns the set of end positions of nonterminal nt at pos as a bitmask-like sorted slice
func (rf *Ref) Ends(nt, pos int) []int {
	seen := map[int]bool{}
	var out []int
	for _, r := range rf.D[nt][pos] {
		if !seen[r.End] {
			seen[r.End] = true
			out = append(out, r.End)
		}
	}
	sortInts(out)
	return out
}

func (rf *Ref) Trees(nt, pos int) []string {
	seen := map[string]bool{}
	var out []string
	for _, r := range rf.D[nt][pos] {
		if !seen[r.Tree] {
			seen[r.Tree] = true
			out = append(out, r.Tree)
		}
	}
	sortStrings(out)
	return out
}

// ExprEnds evaluates any expression's end positions (ends mode table required)
func (rf *Ref) ExprEnds(e *gram.Expr, pos int) []int {
	seen := map[int]bool{}
	var out []int
	for _, r := range rf.Eval(e, pos) {
		if !seen[r.End] {
			seen[r.End] = true
			out = append(out, r.End)
		}
	}
	sortInts(out)
	return out
}

func sortInts(a []int) {
	for i := 1; i < len(a); i++ {
		for j := i; j > 0 && a[j] < a[j-1]; j-- {
			a[j], a[j-1] = a[j-1], a[j]
		}
	}
}

func sortStrings(a []string) {
	for i := 1; i < len(a); i++ {
		for j := i; j > 0 && a[j] < a[j-1]; j-- {
			a[j], a[j-1] = a[j-1], a[j]
		}
	}
}
