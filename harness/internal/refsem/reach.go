package refsem

import "verifharness/internal/gram"

// FurthestFailedTerminal: a complete exploration of nonterminal nt from offset 0 - every alternative, every result of
// every sequence element, every round of every repetition, and the end-of-input test behind every end of nt - tries
// terminals at certain offsets; the result is the largest offset at which such an attempt does not match (-1: none).
// ok is false when the grammar uses an operator this walk does not model or the walk runs out of steps.
//
// It is derived from the ends table only (rf must have been computed in ends mode), i.e. from the MEANING of the
// grammar, not from an execution: an implementation that tries less than this - a cache hit that should have been a
// miss, a skipped alternative - reports errors that are consistent with its own attempts and still fall short of it.
func (rf *Ref) FurthestFailedTerminal(nt int) (far int, ok bool) {
	far, ok = -1, true
	in := rf.In
	seen := map[[2]int]bool{}
	steps := 0
	var reach func(e *gram.Expr, p int)
	reach = func(e *gram.Expr, p int) {
		k := [2]int{e.ID, p}
		if seen[k] || !ok {
			return
		}
		seen[k] = true
		steps++
		if steps > 100000 {
			ok = false
			return
		}
		switch e.Op {
		case gram.OpRune:
			if p >= len(in) || in[p] != e.C {
				if p > far {
					far = p
				}
			}
		case gram.OpEmpty:
		case gram.OpNT:
			// (the reference expression's id is unique per occurrence; the body's id stops the recursion)
			reach(rf.G.NTs[e.NT], p)
		case gram.OpAny:
			for _, c := range e.Kids {
				reach(c, p)
			}
		case gram.OpChoice:
			for _, c := range e.Kids {
				reach(c, p)
				if len(rf.Eval(c, p)) > 0 {
					break
				}
			}
		case gram.OpOpt:
			reach(e.Kids[0], p)
		case gram.OpSeqOf, gram.OpSeqTry, gram.OpSeqFirstOrAll, gram.OpMany, gram.OpMany1, gram.OpSepBy, gram.OpSepBy1:
			cur := []int{p}
			for d := 0; d <= len(in)*2+8 && len(cur) > 0; d++ {
				nx := gram.Lookup(e, d)
				if nx == nil {
					break
				}
				next := map[int]bool{}
				for _, q := range cur {
					reach(nx, q)
					for _, r := range rf.Eval(nx, q) {
						next[r.End] = true
					}
				}
				cur = cur[:0]
				for q := range next {
					cur = append(cur, q)
				}
			}
		default:
			ok = false
		}
	}
	reach(rf.G.NTs[nt], 0)
	for _, e := range rf.Ends(nt, 0) {
		if e != len(in) && e > far { // the sentence's end-of-input test fails behind this end of the root
			far = e
		}
	}
	return far, ok && !rf.Overflow
}
