package refsem

import (
	"fmt"
	"strconv"

	"github.com/opsidian/parsley/ast"
	"github.com/opsidian/parsley/parsley"

	"verifharness/internal/gram"
)

// Validator checks structurally that a tree returned by the implementation is
// a derivation of the grammar: leaves spell the input, child spans are
// contiguous, and the first-match / longest-path side conditions hold (read
// from the ends-mode reference table). It is used when the tree set is too
// large (or infinite) to enumerate.
type Validator struct {
	Ends *Ref // computed, ends mode
	Base int  // global position of input offset 0
	// in-progress unit cycles evaluate to false: the least-fixpoint answer
	active map[string]bool
	Steps  int
	Why    string
}

func (v *Validator) fail(format string, args ...any) bool {
	if v.Why == "" {
		v.Why = fmt.Sprintf(format, args...)
	}
	return false
}

func (v *Validator) hasResult(e *gram.Expr, pos int) bool {
	return len(v.Ends.Eval(e, pos)) > 0
}

// Valid reports whether node n is a derivation of expression e starting at input offset pos.
func (v *Validator) Valid(n parsley.Node, e *gram.Expr, pos int) bool {
	v.Steps++
	if v.Steps > 200000 {
		return v.fail("validator step budget")
	}
	if n == nil {
		return v.fail("nil node")
	}
	if int(n.Pos())-v.Base != pos {
		// an EMPTY/empty sequence node starts where it is, everything else where its first leaf is
		return v.fail("node %s@%d does not start at %d", n.Token(), int(n.Pos())-v.Base, pos)
	}
	end := int(n.ReaderPos()) - v.Base
	in := v.Ends.In
	switch e.Op {
	case gram.OpRune:
		t, ok := n.(*ast.TerminalNode)
		if !ok {
			return v.fail("expected terminal for %q, got %T", e.C, n)
		}
		if pos >= len(in) || in[pos] != e.C || end != pos+1 || t.Token() != string(rune(e.C)) {
			return v.fail("terminal %q at %d-%d does not spell the input", t.Token(), pos, end)
		}
		if r, ok := t.Value().(rune); !ok || r != rune(e.C) {
			return v.fail("terminal value %v", t.Value())
		}
		return true
	case gram.OpStr:
		lit, ok := n.(parsley.LiteralNode)
		if !ok || n.Token() != "STRING" || pos >= len(in) || end > len(in) || end <= pos {
			return v.fail("expected a STRING literal node at %d, got %T %s", pos, n, n.Token())
		}
		want, err := strconv.Unquote(in[pos:end])
		if err != nil || lit.Value() != want {
			return v.fail("STRING node at %d-%d has value %q, its bytes %q unquote to %q (%v)", pos, end, lit.Value(), in[pos:end], want, err)
		}
		return true
	case gram.OpEmpty:
		if en, ok := n.(ast.EmptyNode); ok && int(en.Pos())-v.Base == pos {
			return true
		}
		return v.fail("expected EMPTY at %d, got %T", pos, n)
	case gram.OpSuppress:
		return v.Valid(n, e.Kids[0], pos)
	case gram.OpLit:
		k := gram.LitKinds[e.C]
		if LitOracle == nil {
			return true
		}
		wantEnd, val, verdict := LitOracle(int(e.C), in, pos)
		if verdict == 2 {
			return true
		}
		if verdict != 1 || n.Token() != k.Token || end != wantEnd {
			return v.fail("expected a %s literal at %d-%d, got %s at %d-%d", k.Token, pos, wantEnd, n.Token(), pos, end)
		}
		if lit, ok := n.(parsley.LiteralNode); !ok || lit.Value() != val {
			return v.fail("%s node at %d-%d does not carry the value %v", k.Token, pos, end, val)
		}
		return true
	case gram.OpNT:
		key := fmt.Sprintf("%d/%d/%p", e.NT, pos, n)
		if _, isEmpty := n.(ast.EmptyNode); isEmpty {
			key = fmt.Sprintf("%d/%d/E", e.NT, pos)
		}
		if v.active == nil {
			v.active = map[string]bool{}
		}
		if v.active[key] {
			return false // unit cycle: not derivable this way
		}
		v.active[key] = true
		ok := v.Valid(n, v.Ends.G.NTs[e.NT], pos)
		delete(v.active, key)
		return ok
	case gram.OpAny:
		for _, k := range e.Kids {
			if v.try(n, k, pos) {
				return true
			}
		}
		return v.fail("no alternative of %s derives %s@%d-%d", e, n.Token(), pos, end)
	case gram.OpChoice:
		for _, k := range e.Kids {
			if v.hasResult(k, pos) {
				// first alternative with a result: the node must come from it
				return v.Valid(n, k, pos)
			}
		}
		return v.fail("Choice %s has no matching alternative at %d", e, pos)
	case gram.OpOpt:
		if en, ok := n.(ast.EmptyNode); ok && int(en.Pos())-v.Base == pos {
			return true
		}
		return v.Valid(n, e.Kids[0], pos)
	default: // sequence family
		nt, ok := n.(*ast.NonTerminalNode)
		if !ok {
			return v.fail("expected non-terminal node for %s, got %T", e, n)
		}
		if nt.Token() != gram.Token(e.Op) {
			return v.fail("token %s for %s", nt.Token(), e)
		}
		kids := nt.Children()
		d := len(kids)
		if !gram.LenCheck(e, d) {
			return v.fail("%s emitted with %d elements", e, d)
		}
		p := pos
		for i, c := range kids {
			el := gram.Lookup(e, i)
			if el == nil {
				return v.fail("%s has too many children", e)
			}
			if !v.Valid(c, el, p) {
				return false
			}
			np := int(c.ReaderPos()) - v.Base
			if np < p {
				return v.fail("child ends before it starts")
			}
			p = np
		}
		if end != p {
			return v.fail("%s node ends at %d but its children end at %d", e, end, p)
		}
		// longest-path rule: a path is emitted only where the next element has no result
		if nx := gram.Lookup(e, d); nx != nil && v.hasResult(nx, p) {
			return v.fail("%s emitted a path of %d elements at %d although the next element matches", e, d, p)
		}
		return true
	}
}

// try validates without keeping the failure reason of a rejected alternative
func (v *Validator) try(n parsley.Node, e *gram.Expr, pos int) bool {
	why := v.Why
	if v.Valid(n, e, pos) {
		return true
	}
	v.Why = why
	return false
}
