package gram

import (
	"bytes"
	"fmt"
	"runtime/metrics"
	"strconv"
	"strings"

	"github.com/opsidian/parsley/ast"
	"github.com/opsidian/parsley/combinator"
	"github.com/opsidian/parsley/data"
	"github.com/opsidian/parsley/parser"
	"github.com/opsidian/parsley/parsley"
	"github.com/opsidian/parsley/text"
	"github.com/opsidian/parsley/text/terminal"
)

// Hooks are the places where monitors are interposed while a grammar model is
// turned into real parsley parsers. Probes forward arguments and results
// unchanged and never call ctx.RegisterCall, so results, errors and call
// counts are those of the unwrapped grammar.
type Hooks struct {
	// Around wraps the finished parser of every expression (terminals, combinators and nonterminal references)
	Around func(e *Expr, p parsley.Parser) parsley.Parser
	// Inside wraps a nonterminal's body below its Memoize
	Inside func(nt int, p parsley.Parser) parsley.Parser
	// Outside wraps a nonterminal above its Memoize
	Outside func(nt int, p parsley.Parser) parsley.Parser
	// MemoExpr lists expression ids that are additionally wrapped in Memoize (C03)
	MemoExpr map[int]bool
	// UnderMemo wraps an expression below the Memoize added through MemoExpr
	UnderMemo func(e *Expr, p parsley.Parser) parsley.Parser
	// NameOf returns the Name() to give to an Any/Choice/sequence ("" = unnamed)
	NameOf func(e *Expr) string
	// Interp is bound to every sequence-family node (nil = none)
	Interp parsley.Interpreter
	// NoMemo builds every nonterminal without Memoize (plain recursive descent)
	NoMemo bool
	// Leaf wraps the raw terminal parser of a rune expression (below Memoize and Around)
	Leaf func(e *Expr, p parsley.Parser) parsley.Parser
	// ShareLeaves: one terminal.Rune value per character for the whole grammar, the way a user defines a token once
	// and mentions it in several rules
	ShareLeaves bool
	// ShareExprs: structurally equal composite sub-expressions are built ONCE and the one parser value is mentioned
	// wherever the expression occurs (opt := Optional(x) used in two rules). A combinator that keeps state in its
	// closure is then shared by all its users. Ignored when NameOf is set (names are per occurrence).
	ShareExprs bool
	// UserLeaves: rune leaves are a HAND-WRITTEN terminal parser that returns a node type of the user's own (UserLeaf: a
	// pointer type implementing parsley.Node, parsley.LiteralNode and ast.ReaderPosSetter, with a non-comparable field)
	// instead of terminal.Rune's *ast.TerminalNode: the library must treat a user's terminal like its own
	UserLeaves bool
	// UserValueLeaves (with UserLeaves): the user's node is a VALUE type that cannot be compared with == (it carries a
	// slice) and whose end cannot be moved (no SetReaderPos): only for grammars without RightTrim
	UserValueLeaves bool
	// UserAnyTop: the body of a memoized nonterminal, when it is an Any, is run by a HAND-WRITTEN alternative combinator
	// that collects the results in an ast.NodeList of its own, grown with plain append (so it usually has spare
	// capacity) - the list Memoize then caches and hands to several consumers
	UserAnyTop bool
	// UserAnyOnly restricts UserAnyTop to these nonterminals (nil: all)
	UserAnyOnly map[int]bool
	// KeywordLeaves: every rune terminal is wrapped in a hand-written parser that uses the context's keyword registry
	// the lazy way - the first time it runs on a context it registers a keyword of its own (ctx.IsKeyword /
	// ctx.RegisterKeywords, the API the library offers to user-written identifier parsers) - and then delegates
	KeywordLeaves bool
	// Budget is called at every call of a rune / keyword terminal (Guard.LeafTick): a repetition over an Any of many
	// terminals can run millions of combinator calls inside ONE nonterminal body, where no other probe sits
	Budget func(ctx *parsley.Context)
}

type Built struct {
	G      *Grammar
	NTs    []parser.Func
	leaves map[int]parsley.Parser
	shared map[string]parsley.Parser
	// SharedUses counts the occurrences that were served by a parser value built for an earlier occurrence
	SharedUses int
	// UserAnys counts the nonterminal bodies run by the hand-written alternative combinator
	UserAnys int
}

func (b *Built) build(e *Expr, h *Hooks) parsley.Parser {
	var p parsley.Parser
	switch e.Op {
	case OpRune:
		if h.ShareLeaves {
			if b.leaves == nil {
				b.leaves = map[int]parsley.Parser{}
			}
			if b.leaves[int(e.C)] == nil {
				b.leaves[int(e.C)] = terminal.Rune(rune(e.C))
			}
			p = b.leaves[int(e.C)]
		} else {
			p = terminal.Rune(rune(e.C))
		}
		if h.UserLeaves {
			if b.leaves == nil {
				b.leaves = map[int]parsley.Parser{}
			}
			if b.leaves[1000+int(e.C)] == nil || !h.ShareLeaves {
				b.leaves[1000+int(e.C)] = UserRune(e.C, h.UserValueLeaves)
			}
			p = b.leaves[1000+int(e.C)]
		}
		if h.Budget != nil {
			inner, budget := p, h.Budget
			p = parser.Func(func(ctx *parsley.Context, lrc data.IntMap, pos parsley.Pos) (parsley.Node, data.IntSet, parsley.Error) {
				budget(ctx)
				return inner.Parse(ctx, lrc, pos)
			})
		}
		if h.KeywordLeaves {
			inner, kw := p, "kw-"+string(rune(e.C))
			p = parser.Func(func(ctx *parsley.Context, lrc data.IntMap, pos parsley.Pos) (parsley.Node, data.IntSet, parsley.Error) {
				if !ctx.IsKeyword(kw) {
					ctx.RegisterKeywords(kw)
				}
				return inner.Parse(ctx, lrc, pos)
			})
		}
		if h.Leaf != nil {
			p = h.Leaf(e, p)
		}
	case OpKw:
		p = terminal.Op(e.S)
	case OpMark:
		p = UserMark()
	case OpStr:
		if b.leaves == nil {
			b.leaves = map[int]parsley.Parser{}
		}
		if b.leaves[-1] == nil || !h.ShareLeaves {
			b.leaves[-1] = terminal.String(nil, false)
		}
		p = b.leaves[-1]
		if h.Budget != nil {
			inner, budget := p, h.Budget
			p = parser.Func(func(ctx *parsley.Context, lrc data.IntMap, pos parsley.Pos) (parsley.Node, data.IntSet, parsley.Error) {
				budget(ctx)
				return inner.Parse(ctx, lrc, pos)
			})
		}
	case OpLit:
		if b.leaves == nil {
			b.leaves = map[int]parsley.Parser{}
		}
		k := -10 - int(e.C)
		if b.leaves[k] == nil || !h.ShareLeaves {
			b.leaves[k] = NewLitParser(int(e.C))
		}
		p = b.leaves[k]
		if h.Budget != nil {
			inner, budget := p, h.Budget
			p = parser.Func(func(ctx *parsley.Context, lrc data.IntMap, pos parsley.Pos) (parsley.Node, data.IntSet, parsley.Error) {
				budget(ctx)
				return inner.Parse(ctx, lrc, pos)
			})
		}
		if h.Leaf != nil {
			p = h.Leaf(e, p)
		}
	case OpEmpty:
		p = parser.Empty()
	case OpEnd:
		p = parser.End()
	case OpNT:
		p = &b.NTs[e.NT]
		if e.ID%3 == 0 {
			// a third of the references go through the library's own device for recursive definitions: a
			// parser.FuncWrapper whose function is the nonterminal (called when the reference is used, by which time it is set)
			nt := e.NT
			p = parser.FuncWrapper{F: func(ctx *parsley.Context, lrc data.IntMap, pos parsley.Pos) (parsley.Node, data.IntSet, parsley.Error) {
				return b.NTs[nt](ctx, lrc, pos)
			}}
		}
	default:
		if h.ShareExprs && h.NameOf == nil {
			if sp, ok := b.shared[e.String()]; ok {
				b.SharedUses++
				return sp
			}
		}
		ks := make([]parsley.Parser, 0, len(e.Kids))
		for _, k := range e.Kids {
			ks = append(ks, b.build(k, h))
		}
		name := ""
		if h.NameOf != nil {
			name = h.NameOf(e)
		}
		seq := func(s *combinator.Sequence) parsley.Parser {
			if h.Interp != nil {
				s = s.Bind(h.Interp)
			}
			if name != "" {
				s = s.Name(name)
			}
			return s
		}
		fn := func(f parser.Func) parsley.Parser {
			if name != "" {
				return f.Name(name)
			}
			return f
		}
		switch e.Op {
		case OpSeqOf:
			p = seq(combinator.SeqOf(ks...))
		case OpSeqTry:
			p = seq(combinator.SeqTry(ks...))
		case OpSeqFirstOrAll:
			p = seq(combinator.SeqFirstOrAll(ks...))
		case OpAny:
			p = fn(combinator.Any(ks...))
		case OpChoice:
			p = fn(combinator.Choice(ks...))
		case OpRTrim:
			p = text.RightTrim(ks[0], text.WsMode(e.C))
		case OpLTrim:
			p = text.LeftTrim(ks[0], text.WsMode(e.C))
		case OpSeqRetSingle:
			p = combinator.SeqOf(ks...).HandleResult(combinator.ReturnSingle())
		case OpSeqPickFirst:
			p = combinator.SeqOf(ks...).HandleResult(combinator.SeqResultHandlerFunc(func(pos parsley.Pos, token string, nodes []parsley.Node, ip parsley.Interpreter) parsley.Node {
				if len(nodes) == 0 {
					return ast.EmptyNode(pos)
				}
				return nodes[0] // the node itself, as its parser returned it
			}))
		case OpSingle:
			p = combinator.Single(ks[0])
		case OpSuppress:
			p = combinator.SuppressError(ks[0])
		case OpOpt:
			p = fn(combinator.Optional(ks[0]))
		case OpMany:
			p = seq(combinator.Many(ks[0]))
		case OpMany1:
			p = seq(combinator.Many1(ks[0]))
		case OpSepBy:
			p = seq(combinator.SepBy(ks[0], ks[1]))
		case OpSepBy1:
			p = seq(combinator.SepBy1(ks[0], ks[1]))
		default:
			panic("build: unknown op")
		}
	}
	if h.MemoExpr != nil && h.MemoExpr[e.ID] && e.Op != OpNT {
		if h.UnderMemo != nil {
			p = h.UnderMemo(e, p)
		}
		p = combinator.Memoize(p)
		if h.Budget != nil {
			// a budget tick OUTSIDE the extra Memoize: a repetition over a memoized sub-expression is answered from the cache -
			// no terminal runs, no nonterminal boundary is crossed - while the sequence above it multiplies result paths
			// (C02 thorough at seed 1, job 181: one worker out of memory); the cache hits must be able to end the case
			inner, budget := p, h.Budget
			p = parser.Func(func(ctx *parsley.Context, lrc data.IntMap, pos parsley.Pos) (parsley.Node, data.IntSet, parsley.Error) {
				budget(ctx)
				return inner.Parse(ctx, lrc, pos)
			})
		}
	}
	if h.Around != nil {
		p = h.Around(e, p)
	}
	if h.ShareExprs && h.NameOf == nil && e.Op != OpRune && e.Op != OpKw && e.Op != OpMark && e.Op != OpStr && e.Op != OpLit && e.Op != OpEmpty && e.Op != OpEnd && e.Op != OpNT {
		if b.shared == nil {
			b.shared = map[string]parsley.Parser{}
		}
		b.shared[e.String()] = p
	}
	return p
}

// Build turns the model into parsers. Memoized nonterminals get a fresh Memoize (and parser index) per build.
func Build(g *Grammar, h *Hooks) *Built {
	if h == nil {
		h = &Hooks{}
	}
	b := &Built{G: g, NTs: make([]parser.Func, len(g.NTs))}
	for i, body := range g.NTs {
		var p parsley.Parser
		if h.UserAnyTop && (h.UserAnyOnly == nil || h.UserAnyOnly[i]) && body.Op == OpAny && g.Memo[i] && !h.NoMemo && h.NameOf == nil {
			var ks []parsley.Parser
			for _, k := range body.Kids {
				ks = append(ks, b.build(k, h))
			}
			p = UserAny(ks...)
			b.UserAnys++
		} else {
			p = b.build(body, h)
		}
		if h.Inside != nil {
			p = h.Inside(i, p)
		}
		if g.Memo[i] && !h.NoMemo {
			p = combinator.Memoize(p)
		}
		if h.Outside != nil {
			p = h.Outside(i, p)
		}
		pp := p
		b.NTs[i] = func(ctx *parsley.Context, lrc data.IntMap, pos parsley.Pos) (parsley.Node, data.IntSet, parsley.Error) {
			return pp.Parse(ctx, lrc, pos)
		}
	}
	return b
}

// Env is one parse environment: a file (optionally preceded by other files), reader and context.
type Env struct {
	File *text.File
	FS   *parsley.FileSet
	Ctx  *parsley.Context
	Base int
}

func NewEnv(in string) *Env {
	f := NewFileFrom("f", []byte(in))
	fs := parsley.NewFileSet(f)
	return &Env{File: f, FS: fs, Ctx: parsley.NewContext(fs, text.NewReader(f)), Base: int(f.Pos(0))}
}

// VirtualFile is a parsley.File of a given length without content. A file set assigns offsets from the lengths of
// the files added before; a file of 2^31 bytes cannot be allocated per case, a parsley.File that says it is that long
// can, and pushes every later file to a base offset beyond 2^31 (2^32, 2^40): global positions of that size are as
// legal as any other for the parsed file, which is an ordinary text.File.
type VirtualFile struct {
	Name string
	N    int
	off  int
}

type virtualPosition string

func (v virtualPosition) String() string { return string(v) }

func (v *VirtualFile) Position(p int) parsley.Position {
	if p < 0 || p > v.N {
		return parsley.NilPosition
	}
	return virtualPosition(fmt.Sprintf("%s:+%d", v.Name, p))
}
func (v *VirtualFile) Pos(p int) parsley.Pos { return parsley.Pos(v.off + p) }
func (v *VirtualFile) Len() int              { return v.N }
func (v *VirtualFile) SetOffset(o int)       { v.off = o }

// Filler returns a file of n bytes to be placed before the file of interest: a real text.File up to 2 MiB
// (fill byte b, never CR, so the length survives normalisation), a VirtualFile beyond.
func Filler(name string, n int, b byte) parsley.File {
	if n > 2<<20 {
		return &VirtualFile{Name: name, N: n}
	}
	return text.NewFile(name, bytes.Repeat([]byte{b}, n))
}

// BigOffsets are lengths of a preceding file that push the parsed file across the widths a packed key, a narrow
// integer or a fixed table could assume for a global position (16, 20, 24, 31, 32, 40 bits), on either side.
var BigOffsets = []int{65528, 65536, 70000, 1<<20 - 6, 1<<20 + 5, 1<<24 + 3, 1<<31 - 4, 1<<31 + 7, 1<<32 - 5, 1<<32 + 9, 1 << 40}

// UserLeaf is a terminal node type of the user's own
type UserLeaf struct {
	Tok       string
	Val       rune
	P, RP     parsley.Pos
	Notes     []string // (makes the struct non-comparable by value; the node itself is a pointer)
	setterUse int
}

func (u *UserLeaf) Token() string          { return u.Tok }
func (u *UserLeaf) Schema() interface{}    { return nil }
func (u *UserLeaf) Pos() parsley.Pos       { return u.P }
func (u *UserLeaf) ReaderPos() parsley.Pos { return u.RP }
func (u *UserLeaf) Value() interface{}     { return u.Val }
func (u *UserLeaf) SetReaderPos(f func(parsley.Pos) parsley.Pos) {
	u.setterUse++
	u.RP = f(u.RP)
}
func (u *UserLeaf) String() string { return fmt.Sprintf("%s{%d..%d}", u.Tok, u.P, u.RP) }

// UserAny is a hand-written alternative combinator with the meaning of combinator.Any: every alternative is tried,
// all results are returned. It keeps them in a list of its own, grown with append.
func UserAny(ps ...parsley.Parser) parser.Func {
	return parser.Func(func(ctx *parsley.Context, lrc data.IntMap, pos parsley.Pos) (parsley.Node, data.IntSet, parsley.Error) {
		var out ast.NodeList
		cp := data.EmptyIntSet
		var err parsley.Error
		for _, p := range ps {
			ctx.RegisterCall()
			n, cp2, e := p.Parse(ctx, lrc, pos)
			cp = cp.Union(cp2)
			if e != nil && (err == nil || e.Pos() >= err.Pos()) {
				err = e
			}
			switch v := n.(type) {
			case nil:
			case ast.NodeList:
				out = append(out, v...)
			default:
				out = append(out, n)
			}
		}
		if err != nil {
			ctx.SetError(err)
		}
		switch len(out) {
		case 0:
			return nil, cp, err
		case 1:
			return out[0], cp, nil
		}
		return out, cp, nil
	})
}

// MarkNode is a zero-width marker node of the user's own: it has no position of its own (Pos() is NilPos), its
// reader position is where the parser was called
type MarkNode struct{ RP parsley.Pos }

func (m *MarkNode) Token() string                                          { return "MARK" }
func (m *MarkNode) Schema() interface{}                                    { return nil }
func (m *MarkNode) Pos() parsley.Pos                                       { return parsley.NilPos }
func (m *MarkNode) ReaderPos() parsley.Pos                                 { return m.RP }
func (m *MarkNode) SetReaderPos(f func(parsley.Pos) parsley.Pos)           { m.RP = f(m.RP) }
func (m *MarkNode) Value(userCtx interface{}) (interface{}, parsley.Error) { return nil, nil }

// UserMark is a hand-written parser that always succeeds without consuming input
func UserMark() parser.Func {
	return parser.Func(func(ctx *parsley.Context, lrc data.IntMap, pos parsley.Pos) (parsley.Node, data.IntSet, parsley.Error) {
		return &MarkNode{RP: pos}, data.EmptyIntSet, nil
	})
}

// UserValueLeaf is a terminal node of the user's own that is a value type and not comparable
type UserValueLeaf struct {
	Tok   string
	Val   rune
	P, RP parsley.Pos
	Notes []string
}

func (u UserValueLeaf) Token() string          { return u.Tok }
func (u UserValueLeaf) Schema() interface{}    { return nil }
func (u UserValueLeaf) Pos() parsley.Pos       { return u.P }
func (u UserValueLeaf) ReaderPos() parsley.Pos { return u.RP }
func (u UserValueLeaf) Value() interface{}     { return u.Val }

// UserRune is a hand-written terminal parser with the behaviour of terminal.Rune
func UserRune(c byte, valueNode bool) parser.Func {
	notFound := parsley.NotFoundError(strconv.Quote(string(rune(c))))
	return parser.Func(func(ctx *parsley.Context, lrc data.IntMap, pos parsley.Pos) (parsley.Node, data.IntSet, parsley.Error) {
		if np, ok := ctx.Reader().(*text.Reader).ReadRune(pos, rune(c)); ok && valueNode {
			return UserValueLeaf{Tok: string(rune(c)), Val: rune(c), P: pos, RP: np, Notes: []string{"user"}}, data.EmptyIntSet, nil
		}
		if np, ok := ctx.Reader().(*text.Reader).ReadRune(pos, rune(c)); ok {
			return &UserLeaf{Tok: string(rune(c)), Val: rune(c), P: pos, RP: np, Notes: []string{"user"}}, data.EmptyIntSet, nil
		}
		return nil, data.EmptyIntSet, parsley.NewError(pos, notFound)
	})
}

// NewFileFrom creates a text.File the way a loader with a scratch buffer does: the content is copied into a buffer,
// the buffer is handed to text.NewFile and overwritten right afterwards. The file must have kept its own copy.
func NewFileFrom(name string, content []byte) *text.File {
	scratch := append([]byte{}, content...)
	f := text.NewFile(name, scratch)
	for i := range scratch {
		if i%2 == 0 {
			scratch[i] = '\n'
		} else {
			scratch[i] ^= 0x5a
		}
	}
	return f
}

// NewEnvAt places the file after `before` bytes of other files
func NewEnvAt(in string, before []int) *Env {
	fs := parsley.NewFileSet()
	for i, n := range before {
		fs.AddFile(Filler(fmt.Sprintf("pre%d", i), n, 'z'))
	}
	f := NewFileFrom("f", []byte(in))
	// both legal construction orders: reader before / after the file joins the set
	var rd *text.Reader
	if len(before)%2 == 1 {
		rd = text.NewReader(f)
	}
	fs.AddFile(f)
	if rd == nil {
		rd = text.NewReader(f)
	}
	return &Env{File: f, FS: fs, Ctx: parsley.NewContext(fs, rd), Base: int(f.Pos(0))}
}

// NewEnvIn adds the file to a file set that already holds the inputs of earlier parses (a document set: one file set,
// one file and one context per input)
func NewEnvIn(fs *parsley.FileSet, in string) *Env {
	f := NewFileFrom("f", []byte(in))
	// both legal construction orders: reader before / after the file joins the set
	var rd *text.Reader
	if len(in)%2 == 1 {
		rd = text.NewReader(f)
	}
	fs.AddFile(f)
	if rd == nil {
		rd = text.NewReader(f)
	}
	return &Env{File: f, FS: fs, Ctx: parsley.NewContext(fs, rd), Base: int(f.Pos(0))}
}

// ---------------------------------------------------------------------------
// canonical rendering from public accessors only

func Render(n parsley.Node, base int) string {
	var sb strings.Builder
	render(&sb, n, base, 0)
	return sb.String()
}

func render(sb *strings.Builder, n parsley.Node, base int, depth int) {
	if depth > 200 || sb.Len() > 1<<16 {
		sb.WriteString("…")
		return
	}
	switch v := n.(type) {
	case nil:
		sb.WriteString("<nil>")
	case ast.EmptyNode:
		fmt.Fprintf(sb, "E@%d", int(v.Pos())-base)
	case *ast.TerminalNode:
		fmt.Fprintf(sb, "%s@%d-%d", v.Token(), int(v.Pos())-base, int(v.ReaderPos())-base)
	case *ast.NonTerminalNode:
		sb.WriteString(v.Token())
		sb.WriteByte('[')
		for i, c := range v.Children() {
			if i > 0 {
				sb.WriteByte(' ')
			}
			render(sb, c, base, depth+1)
		}
		fmt.Fprintf(sb, "]@%d-%d", int(v.Pos())-base, int(v.ReaderPos())-base)
	case parser.EndNode:
		fmt.Fprintf(sb, "EOF@%d", int(v.Pos())-base)
	case ast.NodeList:
		sb.WriteString("LIST(")
		for i, c := range v {
			if i > 0 {
				sb.WriteString(" | ")
			}
			render(sb, c, base, depth+1)
		}
		sb.WriteByte(')')
	default:
		if lit, ok := n.(parsley.LiteralNode); ok {
			fmt.Fprintf(sb, "%s{%v}@%d-%d", n.Token(), lit.Value(), int(n.Pos())-base, int(n.ReaderPos())-base)
		} else {
			fmt.Fprintf(sb, "?%T@%d-%d", n, int(n.Pos())-base, int(n.ReaderPos())-base)
		}
	}
}

// NewLitParser builds the library's typed terminal of the given kind (index into LitKinds)
func NewLitParser(kind int) parsley.Parser {
	switch LitKinds[kind].Name {
	case "integer":
		return terminal.Integer(nil)
	case "float":
		return terminal.Float(nil)
	case "bool":
		return terminal.Bool(nil, "true", "false")
	case "nil":
		return terminal.Nil(nil, "nil")
	case "char":
		return terminal.Char(nil)
	case "duration":
		return terminal.TimeDuration(nil)
	case "word":
		return terminal.Word(nil, "foo", 7)
	default:
		return terminal.Regexp(nil, "RE", "identifier", "[a-z]+[0-9]+", 0)
	}
}

// Alternatives flattens a result into its list of alternatives
func Alternatives(n parsley.Node) []parsley.Node {
	if n == nil {
		return nil
	}
	if nl, ok := n.(ast.NodeList); ok {
		return []parsley.Node(nl)
	}
	return []parsley.Node{n}
}

// ---------------------------------------------------------------------------
// the standard guard probe: activation tracking (C02's invariant) and logical budgets

type BoundViolation struct {
	NT, Pos, Active, Remaining int
}

func (b BoundViolation) String() string {
	return fmt.Sprintf("N%d active %d times at input offset %d (remaining input %d, bound %d)", b.NT, b.Active, b.Pos, b.Remaining, b.Remaining+2)
}

type BudgetExceeded struct{ What string }

type Guard struct {
	Base      int
	MaxCalls  int
	MaxList   int
	MaxEvents int
	Events    int
	active    map[[2]int]int
	MaxDepth  int // deepest simultaneous activation seen
	MaxSlack  int // max over activations of depth - (remaining+2); <= 0 iff the bound holds
	AtBound   int // activations that reached the bound exactly
	Curtailed int // calls that returned a non-empty curtailing set
	Requests  int // calls seen above Memoize
	Executed  int // executions of the wrapped parser seen below Memoize
	NoExec    int // requests answered without executing the wrapped parser (cache hit or curtailed call)
	NoAssert  bool
	// SpanViolation: online invariant on every result of every memoized parser: each alternative starts where the
	// parser was invoked (or later, never before) and ends inside the file
	SpanViolation string
	FileEnd       int // global position of the end of the file (0: span invariant off)
	leafCalls     int
}

func NewGuard(base int) *Guard {
	return &Guard{Base: base, MaxCalls: 300000, MaxList: 150, MaxEvents: 400000, active: map[[2]int]int{}, MaxSlack: -1 << 30}
}

// Reset prepares the guard for the next parse on the SAME built grammar (a parser graph is normally
// built once and used for many inputs; state it might keep between parses must not matter)
func (gd *Guard) Reset(base int) {
	gd.Base = base
	gd.Events, gd.MaxDepth, gd.AtBound, gd.Curtailed, gd.Requests, gd.Executed, gd.NoExec = 0, 0, 0, 0, 0, 0, 0
	gd.MaxSlack = -1 << 30
	gd.active = map[[2]int]int{}
}

// MaxHeapBytes: a case is abandoned (budget: inconclusive) when the worker's heap passes this size
var MaxHeapBytes uint64 = 2 << 30

var heapSample = []metrics.Sample{{Name: "/memory/classes/heap/objects:bytes"}}

func heapBytes() uint64 {
	metrics.Read(heapSample)
	if heapSample[0].Value.Kind() != metrics.KindUint64 {
		return 0
	}
	return heapSample[0].Value.Uint64()
}

// Tick counts one probe event and enforces the logical budget
func (gd *Guard) Tick(ctx *parsley.Context) {
	gd.Events++
	if gd.Events > gd.MaxEvents {
		panic(BudgetExceeded{"probe events"})
	}
	if gd.Events%256 == 0 && heapBytes() > MaxHeapBytes {
		// a case whose result lists stay under MaxList but are rebuilt so often that the worker would run out of memory:
		// not judged (inconclusive for this case), the worker goes on
		panic(BudgetExceeded{"heap bytes"})
	}
	if ctx.CallCount() > gd.MaxCalls {
		panic(BudgetExceeded{"parser calls"})
	}
}

// LeafTick is the budget probe of the terminals: every 1024th terminal call it checks the call and heap budgets
func (gd *Guard) LeafTick(ctx *parsley.Context) {
	gd.leafCalls++
	if gd.leafCalls&1023 != 0 {
		return
	}
	if ctx.CallCount() > gd.MaxCalls {
		panic(BudgetExceeded{"parser calls"})
	}
	if heapBytes() > MaxHeapBytes {
		panic(BudgetExceeded{"heap bytes"})
	}
}

func (gd *Guard) CheckList(n parsley.Node) {
	if nl, ok := n.(ast.NodeList); ok && len(nl) > gd.MaxList {
		panic(BudgetExceeded{"result list length"})
	}
}

// Inside is the probe placed below Memoize: it sees every execution of the wrapped parser.
func (gd *Guard) Inside(nt int, p parsley.Parser) parsley.Parser {
	return parser.Func(func(ctx *parsley.Context, lrc data.IntMap, pos parsley.Pos) (parsley.Node, data.IntSet, parsley.Error) {
		gd.Tick(ctx)
		gd.Executed++
		k := [2]int{nt, int(pos)}
		gd.active[k]++
		act := gd.active[k]
		rem := ctx.Reader().Remaining(pos)
		if act > gd.MaxDepth {
			gd.MaxDepth = act
		}
		if act-(rem+2) > gd.MaxSlack {
			gd.MaxSlack = act - (rem + 2)
		}
		if act == rem+2 {
			gd.AtBound++
		}
		if act > rem+2 && !gd.NoAssert {
			gd.active[k]--
			panic(BoundViolation{NT: nt, Pos: int(pos) - gd.Base, Active: act, Remaining: rem})
		}
		defer func() { gd.active[k]-- }()
		n, cp, err := p.Parse(ctx, lrc, pos)
		gd.CheckList(n)
		if gd.FileEnd > 0 && gd.SpanViolation == "" {
			for _, alt := range Alternatives(n) {
				if alt.Pos() < pos || alt.ReaderPos() < alt.Pos() || int(alt.ReaderPos()) > gd.FileEnd {
					gd.SpanViolation = fmt.Sprintf("parser %d invoked at offset %d returned %s (file ends at offset %d)", nt, int(pos)-gd.Base, Render(alt, gd.Base), gd.FileEnd-gd.Base)
				}
			}
		}
		return n, cp, err
	})
}

// Outside is the probe placed above Memoize: it sees every request, including cache hits and curtailed calls.
func (gd *Guard) Outside(nt int, p parsley.Parser) parsley.Parser {
	return parser.Func(func(ctx *parsley.Context, lrc data.IntMap, pos parsley.Pos) (parsley.Node, data.IntSet, parsley.Error) {
		gd.Tick(ctx)
		gd.Requests++
		before := gd.Executed
		n, cp, err := p.Parse(ctx, lrc, pos)
		if gd.Executed == before {
			gd.NoExec++
		}
		if cp.Len() > 0 {
			gd.Curtailed++
		}
		return n, cp, err
	})
}

// Outcome is what running a parser yielded
type Outcome struct {
	Node   parsley.Node
	CP     data.IntSet
	Err    parsley.Error
	Bound  *BoundViolation
	Budget string
	Panic  string
	Calls  int
}

// Run invokes p at input offset pos, classifying panics
func Run(env *Env, p parsley.Parser, pos int) (o Outcome) {
	defer func() {
		o.Calls = env.Ctx.CallCount()
		if r := recover(); r != nil {
			switch v := r.(type) {
			case BoundViolation:
				o.Bound = &v
			case BudgetExceeded:
				o.Budget = v.What
			default:
				o.Panic = fmt.Sprint(r)
			}
		}
	}()
	o.Node, o.CP, o.Err = p.Parse(env.Ctx, data.EmptyIntMap, env.File.Pos(pos))
	return
}
