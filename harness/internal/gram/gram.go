// Package gram is the grammar model used by the grammar-level checks: an
// expression tree over parsley's combinator set, analyses on it (nullability,
// guardedness, stratification), generators and the builder that turns a model
// into real parsley parsers wrapped in probes.
package gram

import (
	"fmt"
	"strings"
)

type Op int

const (
	OpRune Op = iota
	OpEmpty
	OpSeqOf
	OpSeqTry
	OpSeqFirstOrAll
	OpAny
	OpChoice
	OpOpt
	OpMany
	OpMany1
	OpSepBy
	OpSepBy1
	OpNT
	// extended operators, used only by the C07/C12 templates (no reference semantics):
	// text.RightTrim / text.LeftTrim with whitespace mode C (0..3)
	OpRTrim
	OpLTrim
	// combinator.Single / combinator.SuppressError around the operand
	OpSingle
	OpSuppress
	// SeqOf(kids...).HandleResult(combinator.ReturnSingle()): a one-element match returns the element itself
	OpSeqRetSingle
	// parser.End(): matches (zero-width) exactly at the end of the input
	OpEnd
	// terminal.Op(S): a multi-byte operator / keyword token (its node's Token() is S itself - also when S is a name the
	// library uses for its own nodes: "EOF", "EMPTY", "SEQ", "NIL")
	OpKw
	// a hand-written parser that always succeeds without consuming input and returns a marker node of the user's own
	// whose Pos() is parsley.NilPos ("no position of its own") and whose ReaderPos() is the call position: an ε with a
	// node that is not ast.EmptyNode
	OpMark
	// SeqOf(kids...).HandleResult(<a result handler of the user's own that returns the FIRST matched node>): the
	// look-ahead idiom "x, provided that y follows"
	OpSeqPickFirst
	// terminal.String(nil, false): a double-quoted string literal with Go escapes - the one stock terminal whose value
	// is not a slice of the input (it is unquoted) and whose parser works on the file's bytes through Readf
	OpStr
	// one of the library's typed terminals (C = index into LitKinds): integer, float, bool, nil, char, time duration -
	// each returns a node TYPE of its own with its own copy of the node methods - and word / regexp terminals
	OpLit
)

var opNames = map[Op]string{OpSeqOf: "Seq", OpSeqTry: "SeqTry", OpSeqFirstOrAll: "SeqFOA", OpAny: "Any", OpChoice: "Choice",
	OpRTrim: "RTrim", OpLTrim: "LTrim", OpSingle: "Single", OpSuppress: "SuppressError", OpSeqRetSingle: "SeqReturnSingle", OpSeqPickFirst: "SeqPickFirst", OpEnd: "End", OpOpt: "Opt", OpMany: "Many", OpMany1: "Many1", OpSepBy: "SepBy", OpSepBy1: "SepBy1"}

// LitKind describes one typed terminal: its name, the token of its node, whether the node is a typed literal node (its
// rendering carries the value) and the literals inputs are sampled from. The parsers are built in build.go.
type LitKind struct {
	Name, Token string
	Typed       bool
	Pool        []string
}

var LitKinds = []LitKind{
	{"integer", "INTEGER", true, []string{"42", "-7", "0x1f", "0"}},
	{"float", "FLOAT", true, []string{"1.5", "-0.25", "2.0e3"}},
	{"bool", "BOOL", true, []string{"true", "false"}},
	{"nil", "NIL", true, []string{"nil"}},
	{"char", "CHAR", true, []string{"'x'", `'\n'`}},
	{"duration", "TIME_DURATION", true, []string{"90s", "1h30m", "250ms"}},
	{"word", "FOO", false, []string{"foo"}},
	{"regexp", "RE", false, []string{"ab12", "x1"}},
}

// Expr is a grammar expression. ID is unique within a grammar.
type Expr struct {
	Op   Op      `json:"op"`
	C    byte    `json:"c,omitempty"`
	S    string  `json:"s,omitempty"`
	Kids []*Expr `json:"kids,omitempty"`
	NT   int     `json:"nt,omitempty"`
	ID   int     `json:"id"`
}

// Grammar is a list of nonterminals N0..Nk with bodies.
type Grammar struct {
	NTs    []*Expr `json:"nts"`
	Memo   []bool  `json:"memo"`
	Alpha  string  `json:"alpha"`
	NextID int     `json:"next_id"`
}

func New(alpha string, n int) *Grammar {
	g := &Grammar{Alpha: alpha}
	for i := 0; i < n; i++ {
		g.NTs = append(g.NTs, nil)
		g.Memo = append(g.Memo, true)
	}
	return g
}

func (g *Grammar) Mk(op Op, kids ...*Expr) *Expr {
	g.NextID++
	return &Expr{Op: op, Kids: kids, ID: g.NextID}
}

func (g *Grammar) Rune(c byte) *Expr {
	e := g.Mk(OpRune)
	e.C = c
	return e
}

func (g *Grammar) Kw(s string) *Expr {
	e := g.Mk(OpKw)
	e.S = s
	return e
}

func (g *Grammar) Ref(nt int) *Expr {
	e := g.Mk(OpNT)
	e.NT = nt
	return e
}

func (e *Expr) String() string {
	switch e.Op {
	case OpRune:
		if e.C == '\n' {
			return "\\n"
		}
		return string(e.C)
	case OpEmpty:
		return "ε"
	case OpNT:
		return fmt.Sprintf("N%d", e.NT)
	case OpEnd:
		return "End"
	case OpKw:
		return fmt.Sprintf("%q", e.S)
	case OpMark:
		return "mark"
	case OpStr:
		return "STR"
	case OpLit:
		return "LIT:" + LitKinds[e.C].Name
	case OpRTrim, OpLTrim:
		return fmt.Sprintf("%s(%s,ws%d)", opNames[e.Op], e.Kids[0], e.C)
	}
	var ks []string
	for _, k := range e.Kids {
		ks = append(ks, k.String())
	}
	return opNames[e.Op] + "(" + strings.Join(ks, ",") + ")"
}

func (g *Grammar) String() string {
	var sb strings.Builder
	for i, b := range g.NTs {
		m := ""
		if !g.Memo[i] {
			m = "[plain]"
		}
		if i > 0 {
			sb.WriteString("; ")
		}
		fmt.Fprintf(&sb, "N%d%s = %s", i, m, b)
	}
	return sb.String()
}

// Size is the number of expression nodes
func (g *Grammar) Size() int {
	n := 0
	for _, b := range g.NTs {
		Walk(b, func(*Expr) { n++ })
	}
	return n
}

func Walk(e *Expr, f func(*Expr)) {
	f(e)
	for _, k := range e.Kids {
		Walk(k, f)
	}
}

func IsNonMono(op Op) bool {
	switch op {
	case OpChoice, OpMany, OpMany1, OpSepBy, OpSepBy1, OpSeqTry, OpSeqFirstOrAll:
		return true
	}
	return false
}

func IsSeqLike(op Op) bool {
	switch op {
	case OpSeqOf, OpSeqTry, OpSeqFirstOrAll, OpMany, OpMany1, OpSepBy, OpSepBy1:
		return true
	}
	return false
}

// LenCheck is the documented length rule of the sequence-family combinators,
// re-implemented independently of the library: may a path of d elements be emitted?
func LenCheck(e *Expr, d int) bool {
	l := len(e.Kids)
	switch e.Op {
	case OpSeqOf:
		return d == l
	case OpSeqTry:
		return d > 0 && d <= l
	case OpSeqFirstOrAll:
		return d == 1 || d == l
	case OpMany:
		return true
	case OpMany1:
		return d > 0
	case OpSepBy:
		return d == 0 || d%2 == 1
	case OpSepBy1:
		return d%2 == 1
	}
	panic("LenCheck on non-sequence")
}

// Lookup is the d-th element parser of a sequence-family combinator (nil: none)
func Lookup(e *Expr, d int) *Expr {
	switch e.Op {
	case OpSeqOf, OpSeqTry, OpSeqFirstOrAll:
		if d < len(e.Kids) {
			return e.Kids[d]
		}
		return nil
	case OpMany, OpMany1:
		return e.Kids[0]
	case OpSepBy, OpSepBy1:
		return e.Kids[d%2]
	}
	panic("Lookup on non-sequence")
}

func Token(op Op) string {
	switch op {
	case OpMany, OpMany1:
		return "MANY"
	case OpSepBy, OpSepBy1:
		return "SEP_BY"
	}
	return "SEQ"
}

// ---------------------------------------------------------------------------
// analyses

// nullable(e) given the current approximation for nonterminals. "May match
// without consuming input" (over-approximation).
func exprNullable(e *Expr, nl []bool) bool {
	switch e.Op {
	case OpRune, OpKw, OpStr, OpLit:
		return false
	case OpEmpty, OpOpt, OpMany, OpSepBy, OpEnd, OpMark:
		return true
	case OpRTrim, OpLTrim, OpSingle, OpSuppress:
		return exprNullable(e.Kids[0], nl)
	case OpSeqRetSingle, OpSeqPickFirst:
		for _, k := range e.Kids {
			if !exprNullable(k, nl) {
				return false
			}
		}
		return true
	case OpNT:
		return nl[e.NT]
	case OpSeqOf:
		for _, k := range e.Kids {
			if !exprNullable(k, nl) {
				return false
			}
		}
		return true
	case OpSeqTry, OpSeqFirstOrAll:
		if len(e.Kids) == 0 {
			return true
		}
		// a prefix may be emitted: nullable as soon as the first element is
		return exprNullable(e.Kids[0], nl)
	case OpAny, OpChoice:
		for _, k := range e.Kids {
			if exprNullable(k, nl) {
				return true
			}
		}
		return false
	case OpMany1, OpSepBy1:
		return exprNullable(e.Kids[0], nl)
	}
	return true
}

// NullableNTs computes may-nullability of every nonterminal by fixpoint.
func (g *Grammar) NullableNTs() []bool {
	nl := make([]bool, len(g.NTs))
	for ch := true; ch; {
		ch = false
		for i, b := range g.NTs {
			if !nl[i] && exprNullable(b, nl) {
				nl[i] = true
				ch = true
			}
		}
	}
	return nl
}

func (g *Grammar) Nullable(e *Expr) bool { return exprNullable(e, g.NullableNTs()) }

// RepetitionOK: every repetition operand (Many/Many1 element, SepBy value)
// must consume input - the stated precondition of C02.
func (g *Grammar) RepetitionOK() bool {
	nl := g.NullableNTs()
	ok := true
	for _, b := range g.NTs {
		Walk(b, func(e *Expr) {
			switch e.Op {
			case OpMany, OpMany1, OpSepBy, OpSepBy1:
				if exprNullable(e.Kids[0], nl) {
					ok = false
				}
			}
		})
	}
	return ok
}

type refEdge struct {
	to      int
	nonMono bool
}

// unguardedRefs lists, per nonterminal, the references that can be reached
// without consuming input, and whether they sit under a non-monotone operator.
func (g *Grammar) unguardedRefs() [][]refEdge {
	nl := g.NullableNTs()
	out := make([][]refEdge, len(g.NTs))
	var visit func(nt int, e *Expr, guarded, nonMono bool)
	visit = func(nt int, e *Expr, guarded, nonMono bool) {
		nm := nonMono || IsNonMono(e.Op)
		switch e.Op {
		case OpNT:
			if !guarded {
				out[nt] = append(out[nt], refEdge{e.NT, nonMono})
			}
		case OpSeqOf, OpSeqTry, OpSeqFirstOrAll:
			gd := guarded
			for _, k := range e.Kids {
				visit(nt, k, gd, nm)
				if !exprNullable(k, nl) {
					gd = true
				}
			}
		case OpMany, OpMany1:
			visit(nt, e.Kids[0], guarded, nm)
		case OpSepBy, OpSepBy1:
			visit(nt, e.Kids[0], guarded, nm)
			visit(nt, e.Kids[1], guarded || !exprNullable(e.Kids[0], nl), nm)
		default:
			for _, k := range e.Kids {
				visit(nt, k, guarded, nm)
			}
		}
	}
	for i, b := range g.NTs {
		visit(i, b, false, false)
	}
	return out
}

// Strata computes the strongly connected components of the unguarded-reference
// graph in callee-first order. ok is false if a non-monotone unguarded
// reference stays inside a component (then no least-fixpoint meaning exists).
func (g *Grammar) Strata() (order [][]int, comp []int, ok bool) {
	edges := g.unguardedRefs()
	n := len(g.NTs)
	index := make([]int, n)
	low := make([]int, n)
	on := make([]bool, n)
	comp = make([]int, n)
	for i := range index {
		index[i] = -1
	}
	var stack []int
	idx := 0
	var strong func(v int)
	strong = func(v int) {
		index[v], low[v] = idx, idx
		idx++
		stack = append(stack, v)
		on[v] = true
		for _, e := range edges[v] {
			if index[e.to] < 0 {
				strong(e.to)
				if low[e.to] < low[v] {
					low[v] = low[e.to]
				}
			} else if on[e.to] && index[e.to] < low[v] {
				low[v] = index[e.to]
			}
		}
		if low[v] == index[v] {
			var c []int
			for {
				w := stack[len(stack)-1]
				stack = stack[:len(stack)-1]
				on[w] = false
				comp[w] = len(order)
				c = append(c, w)
				if w == v {
					break
				}
			}
			order = append(order, c)
		}
	}
	for v := 0; v < n; v++ {
		if index[v] < 0 {
			strong(v)
		}
	}
	ok = true
	for v := 0; v < n; v++ {
		for _, e := range edges[v] {
			if e.nonMono && comp[e.to] == comp[v] {
				ok = false
			}
		}
	}
	return order, comp, ok
}

// LeftRecursive reports whether some nonterminal can reach itself without consuming input.
func (g *Grammar) LeftRecursive() bool {
	edges := g.unguardedRefs()
	order, comp, _ := g.Strata()
	for v := range g.NTs {
		for _, e := range edges[v] {
			if comp[e.to] == comp[v] && (len(order[comp[v]]) > 1 || e.to == v) {
				return true
			}
		}
	}
	return false
}

// Kind classifies the left recursion of a grammar for the evidence: "none", "direct", "indirect", "hidden"
func (g *Grammar) Kinds() map[string]bool {
	out := map[string]bool{}
	if !g.LeftRecursive() {
		out["lr-free"] = true
		return out
	}
	order, comp, _ := g.Strata()
	nl := g.NullableNTs()
	// hidden: an unguarded self/SCC reference that is preceded by a nullable element in its sequence
	var visit func(nt int, e *Expr, guarded, afterNullable bool)
	visit = func(nt int, e *Expr, guarded, afterNullable bool) {
		switch e.Op {
		case OpNT:
			if !guarded && comp[e.NT] == comp[nt] {
				if len(order[comp[nt]]) > 1 {
					out["indirect"] = true
				} else {
					out["direct"] = true
				}
				if afterNullable {
					out["hidden"] = true
				}
			}
		case OpSeqOf, OpSeqTry, OpSeqFirstOrAll:
			gd, an := guarded, afterNullable
			for _, k := range e.Kids {
				visit(nt, k, gd, an)
				if !exprNullable(k, nl) {
					gd = true
				} else {
					an = true
				}
			}
		case OpSepBy, OpSepBy1:
			visit(nt, e.Kids[0], guarded, afterNullable)
			visit(nt, e.Kids[1], guarded || !exprNullable(e.Kids[0], nl), true)
		default:
			for _, k := range e.Kids {
				visit(nt, k, guarded, afterNullable)
			}
		}
	}
	for i, b := range g.NTs {
		visit(i, b, false, false)
	}
	return out
}

// RecursiveNTs: nonterminals that can reach themselves through references (guarded or not).
// Only these have to be wrapped in Memoize.
func (g *Grammar) RecursiveNTs() []bool {
	n := len(g.NTs)
	reach := make([][]bool, n)
	for i := range reach {
		reach[i] = make([]bool, n)
		Walk(g.NTs[i], func(e *Expr) {
			if e.Op == OpNT {
				reach[i][e.NT] = true
			}
		})
	}
	for k := 0; k < n; k++ {
		for i := 0; i < n; i++ {
			for j := 0; j < n; j++ {
				if reach[i][k] && reach[k][j] {
					reach[i][j] = true
				}
			}
		}
	}
	out := make([]bool, n)
	for i := range out {
		out[i] = reach[i][i]
	}
	return out
}

// RefModelled: every operator of the grammar has a meaning in the reference semantics (the core set plus LeftTrim and End;
// not RightTrim - it moves its operand in place, K1 - Single, SuppressError or ReturnSingle)
func (g *Grammar) RefModelled() bool {
	ok := true
	for _, b := range g.NTs {
		Walk(b, func(e *Expr) {
			if e.Op == OpRTrim && e.C == 2 {
				// RightTrim in the never-failing mode around an operand without nonterminal references
				Walk(e.Kids[0], func(x *Expr) {
					if x.Op == OpNT {
						ok = false
					}
				})
				return
			}
			if e.Op > OpNT && e.Op != OpLTrim && e.Op != OpEnd && e.Op != OpKw && e.Op != OpMark && e.Op != OpStr && e.Op != OpSuppress && e.Op != OpLit {
				ok = false
			}
		})
	}
	return ok
}

// HasOp reports whether the operator occurs anywhere in the grammar
func (g *Grammar) HasOp(op Op) bool {
	found := false
	for _, b := range g.NTs {
		Walk(b, func(e *Expr) {
			if e.Op == op {
				found = true
			}
		})
	}
	return found
}

// SuppressSome wraps sub-expressions in combinator.SuppressError: every nonterminal reference with probability 1/2 and
// every other proper sub-expression with probability 1/8. SuppressError only drops the error of its operand - results,
// curtailing parsers and the left-recursion context pass through -, so the meaning of the grammar (which parses exist,
// their trees, the work needed) stays what it was; a grammar whose LEFT-RECURSIVE references run through the wrapper is
// the case no hand-written grammar of the repository contains.
func (g *Grammar) SuppressSome(intn func(int) int) int {
	n := 0
	var visit func(e *Expr)
	visit = func(e *Expr) {
		for i, k := range e.Kids {
			visit(k)
			if k.Op == OpSuppress {
				continue
			}
			if (k.Op == OpNT && intn(2) == 0) || (k.Op != OpNT && intn(8) == 0) {
				e.Kids[i] = g.Mk(OpSuppress, k)
				n++
			}
		}
	}
	for i, b := range g.NTs {
		visit(b)
		if b.Op == OpNT && intn(2) == 0 {
			g.NTs[i] = g.Mk(OpSuppress, b)
			n++
		}
	}
	return n
}

// HasExtendedOps: the grammar uses operators the reference semantics does not model (trims, Single, ...)
func (g *Grammar) HasExtendedOps() bool {
	ext := false
	for _, b := range g.NTs {
		Walk(b, func(e *Expr) {
			if e.Op > OpNT {
				ext = true
			}
		})
	}
	return ext
}
