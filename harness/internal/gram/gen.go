package gram

import (
	"math/rand"
)

// GenOpts steers the random grammar generator.
type GenOpts struct {
	Alpha      string
	MaxNT      int
	Depth      int
	Stratified bool // steer references so that most grammars are stratified (checked afterwards by Strata)
	LRFree     bool // unguarded references only to lower-numbered nonterminals
	Trims      bool // wrap some sub-expressions in text.LeftTrim / text.RightTrim (no reference semantics: C02/C07 only)
	RTrimSeqs  bool // with Trims and LeftTrims: RightTrim too, but only around sequence-like operands (they build a fresh node: K1 cannot reach a shared one)
	LeftTrims  bool // with Trims: LeftTrim only (RightTrim moves its operand's end in place: known finding K1)
	// RTrimFresh: with Trims and LeftTrims: also RightTrim in the never-failing mode WsSpacesNl around operands WITHOUT
	// nonterminal references (every node they return is fresh, K1 cannot reach a shared one). Such grammars have a
	// reference meaning: each result's end moves over the whitespace that follows it.
	RTrimFresh bool
	Ends       bool // allow parser.End() as a leaf (sequences that end at the end of the input)
	Ops        []Op // operator pool (nil: all)
}

type genCtx struct {
	self    int
	group   int
	guarded bool
	nonMono bool
}

type generator struct {
	g     *Grammar
	r     *rand.Rand
	o     GenOpts
	group []int
}

var allOps = []Op{OpSeqOf, OpSeqOf, OpSeqOf, OpAny, OpAny, OpAny, OpOpt, OpChoice, OpMany, OpMany1, OpSepBy, OpSepBy1, OpSeqTry, OpSeqFirstOrAll}

func (gn *generator) leafRune() *Expr {
	return gn.g.Rune(gn.g.Alpha[gn.r.Intn(len(gn.g.Alpha))])
}

// syntactic nullability used while generating (nonterminal bodies are not known yet: assume nullable)
func synNullable(e *Expr) bool {
	switch e.Op {
	case OpRune, OpKw, OpStr, OpLit:
		return false
	case OpEmpty, OpOpt, OpMany, OpSepBy, OpNT, OpEnd, OpMark:
		return true
	case OpLTrim, OpRTrim, OpSingle, OpSuppress:
		return synNullable(e.Kids[0])
	case OpSeqOf:
		for _, k := range e.Kids {
			if !synNullable(k) {
				return false
			}
		}
		return true
	case OpSeqTry, OpSeqFirstOrAll:
		if len(e.Kids) == 0 {
			return true
		}
		return synNullable(e.Kids[0])
	case OpAny, OpChoice:
		for _, k := range e.Kids {
			if synNullable(k) {
				return true
			}
		}
		return false
	case OpMany1, OpSepBy1:
		return synNullable(e.Kids[0])
	}
	return true
}

func (gn *generator) gen(depth int, c genCtx) *Expr {
	e := gn.gen0(depth, c)
	if gn.o.Trims && gn.r.Intn(5) == 0 {
		op := OpLTrim
		if gn.o.RTrimSeqs {
			if IsSeqLike(e.Op) && gn.r.Intn(2) == 0 {
				op = OpRTrim
			}
		} else if gn.r.Intn(3) == 0 && !gn.o.LeftTrims {
			op = OpRTrim
		}
		w := gn.g.Mk(op, e)
		w.C = byte(gn.r.Intn(4))
		if gn.o.RTrimFresh && gn.r.Intn(2) == 0 {
			ntFree := true
			Walk(e, func(x *Expr) {
				if x.Op == OpNT {
					ntFree = false
				}
			})
			if ntFree {
				w.Op, w.C = OpRTrim, 2
			}
		}
		return w
	}
	return e
}

func (gn *generator) gen0(depth int, c genCtx) *Expr {
	r, g := gn.r, gn.g
	if depth <= 0 || r.Intn(100) < 25 {
		switch k := r.Intn(100); {
		case k < 45:
			return gn.leafRune()
		case k < 52:
			return g.Mk(OpEmpty)
		case k < 58 && gn.o.Ends:
			return g.Mk(OpEnd)
		default:
			var cands []int
			for i := range g.NTs {
				switch {
				case c.guarded:
					cands = append(cands, i)
				case gn.o.LRFree:
					if i < c.self {
						cands = append(cands, i)
					}
				case !gn.o.Stratified:
					cands = append(cands, i)
				case c.nonMono:
					if gn.group[i] < c.group {
						cands = append(cands, i)
					}
				default:
					if gn.group[i] <= c.group {
						cands = append(cands, i)
					}
				}
			}
			if len(cands) == 0 {
				return gn.leafRune()
			}
			return g.Ref(cands[r.Intn(len(cands))])
		}
	}
	ops := gn.o.Ops
	if ops == nil {
		ops = allOps
	}
	op := ops[r.Intn(len(ops))]
	cc := c
	if IsNonMono(op) {
		cc.nonMono = true
	}
	switch op {
	case OpSeqOf, OpSeqTry, OpSeqFirstOrAll:
		n := 1 + r.Intn(3)
		if op == OpSeqOf && r.Intn(20) == 0 {
			n = 0
		}
		if r.Intn(40) == 0 {
			n = 6 + r.Intn(12) // a long sequence from time to time (size thresholds)
			depth = 1
		}
		var kids []*Expr
		for i := 0; i < n; i++ {
			k := gn.gen(depth-1, cc)
			kids = append(kids, k)
			if !synNullable(k) {
				cc.guarded = true
			}
		}
		return g.Mk(op, kids...)
	case OpAny, OpChoice:
		n := 1 + r.Intn(3)
		if r.Intn(40) == 0 {
			n = 6 + r.Intn(12) // many alternatives from time to time
			depth = 1
		}
		var kids []*Expr
		for i := 0; i < n; i++ {
			kids = append(kids, gn.gen(depth-1, cc))
		}
		return g.Mk(op, kids...)
	case OpOpt, OpMany, OpMany1:
		return g.Mk(op, gn.gen(depth-1, cc))
	case OpSepBy, OpSepBy1:
		v := gn.gen(depth-1, cc)
		cs := cc
		cs.guarded = true
		return g.Mk(op, v, gn.gen(depth-1, cs))
	}
	panic("gen")
}

// Random generates a grammar with the given options whose repetition operands consume input.
func Random(r *rand.Rand, o GenOpts) *Grammar {
	if o.Alpha == "" {
		o.Alpha = "ab"
		if r.Intn(3) == 0 {
			o.Alpha = "abc"
		}
	}
	if o.MaxNT == 0 {
		o.MaxNT = 3
	}
	for {
		n := 1 + r.Intn(o.MaxNT)
		g := New(o.Alpha, n)
		gn := &generator{g: g, r: r, o: o, group: make([]int, n)}
		grp := 0
		for i := 0; i < n; i++ {
			gn.group[i] = grp
			if r.Intn(2) == 0 {
				grp++
			}
		}
		for i := 0; i < n; i++ {
			d := o.Depth
			if d == 0 {
				d = 2 + r.Intn(2)
			}
			g.NTs[i] = gn.gen(d, genCtx{self: i, group: gn.group[i]})
		}
		if g.RepetitionOK() {
			return g
		}
	}
}

// MutualLR generates 2-3 nonterminals, each an Any of alternatives that mostly
// start with a nonterminal reference. One memoized parser is then reached at
// one position along several call paths with different re-entry counts, which
// is what context-sensitive cache reuse needs in order to matter.
func MutualLR(r *rand.Rand) *Grammar {
	n := 2 + r.Intn(3)
	g := New("abc", n)
	rn := func() *Expr { return g.Rune(g.Alpha[r.Intn(len(g.Alpha))]) }
	ref := func() *Expr { return g.Ref(r.Intn(n)) }
	for i := 0; i < n; i++ {
		k := 2 + r.Intn(3)
		var alts []*Expr
		for j := 0; j < k; j++ {
			switch r.Intn(10) {
			case 0, 1:
				alts = append(alts, rn())
			case 2:
				alts = append(alts, ref())
			case 3:
				alts = append(alts, g.Mk(OpSeqOf, g.Mk(OpOpt, rn()), ref(), rn()))
			case 4:
				alts = append(alts, g.Mk(OpSeqOf, ref(), ref()))
			case 5:
				// a nonterminal behind an optional NONTERMINAL prefix (Z? T): hidden left recursion between rules
				alts = append(alts, g.Mk(OpSeqOf, g.Mk(OpOpt, ref()), ref()))
			default:
				kids := []*Expr{ref(), rn()}
				if r.Intn(3) == 0 {
					kids = append(kids, rn())
				}
				if r.Intn(4) == 0 {
					kids = append(kids, ref())
				}
				alts = append(alts, g.Mk(OpSeqOf, kids...))
			}
		}
		if i == 0 || r.Intn(2) == 0 {
			alts = append(alts, rn())
		}
		g.NTs[i] = g.Mk(OpAny, alts...)
	}
	return g
}

// HiddenLR generates grammars whose recursion is hidden behind a NULLABLE PREFIX with every layout of its result list:
// zero-width alternative first (Any(ε, x)), last (Optional, Any(x, ε)), in the middle, several zero-width entries,
// repetitions that may match nothing, two nullable elements in a row. The recursive call follows the prefix directly;
// a suffix may be absent, which makes the grammar cyclic (P => P): then only end positions are claimed.
func HiddenLR(r *rand.Rand) *Grammar { return HiddenLRWith(r, false) }

// HiddenLRWith: with marks, a third of the nullable prefixes are (or contain) a hand-written zero-width parser that
// returns a marker node of the user's own with Pos() == NilPos (OpMark)
func HiddenLRWith(r *rand.Rand, marks bool) *Grammar {
	n := 1 + r.Intn(2)
	g := New("abx", n)
	rn := func() *Expr { return g.Rune(g.Alpha[r.Intn(len(g.Alpha))]) }
	nullable := func() *Expr {
		if marks && r.Intn(3) == 0 {
			switch r.Intn(3) {
			case 0:
				return g.Mk(OpMark)
			case 1:
				return g.Mk(OpAny, g.Mk(OpMark), rn())
			default:
				return g.Mk(OpSeqOf, g.Mk(OpMark), g.Mk(OpOpt, rn()))
			}
		}
		switch r.Intn(9) {
		case 0:
			return g.Mk(OpOpt, rn())
		case 1:
			return g.Mk(OpAny, g.Mk(OpEmpty), rn())
		case 2:
			return g.Mk(OpAny, rn(), g.Mk(OpEmpty))
		case 3:
			return g.Mk(OpMany, rn())
		case 4:
			return g.Mk(OpAny, g.Mk(OpEmpty), rn(), g.Mk(OpSeqOf, rn(), rn()))
		case 5:
			return g.Mk(OpSeqOf, g.Mk(OpOpt, rn()), g.Mk(OpOpt, rn()))
		case 6:
			return g.Mk(OpAny, rn(), g.Mk(OpEmpty), rn())
		case 7:
			return g.Mk(OpAny, g.Mk(OpEmpty), g.Mk(OpOpt, rn()))
		default:
			return g.Mk(OpAny, g.Mk(OpSeqOf), rn()) // the empty sequence is a zero-width result that is not an EmptyNode
		}
	}
	for i := 0; i < n; i++ {
		var alts []*Expr
		for k, m := 0, 1+r.Intn(2); k < m; k++ {
			kids := []*Expr{nullable(), g.Ref(r.Intn(n))}
			switch r.Intn(4) {
			case 0: // no suffix: a cyclic rule
			case 1:
				kids = append(kids, nullable())
			default:
				kids = append(kids, rn())
			}
			alts = append(alts, g.Mk(OpSeqOf, kids...))
		}
		if r.Intn(3) == 0 {
			// the recursion hidden in a repetition: a list whose VALUES may be empty and whose SEPARATOR (or element) starts
			// with the nonterminal - the separator runs at the list's own start position when the first value is empty
			sep := g.Mk(OpSeqOf, g.Ref(r.Intn(n)), rn())
			switch r.Intn(4) {
			case 0:
				alts = append(alts, g.Mk(OpSepBy, nullable(), sep))
			case 1:
				alts = append(alts, g.Mk(OpSepBy1, nullable(), sep))
			case 2:
				alts = append(alts, g.Mk(OpMany, g.Mk(OpSeqOf, nullable(), g.Ref(r.Intn(n)), rn())))
			default:
				alts = append(alts, g.Mk(OpSeqOf, g.Mk(OpMany, rn()), g.Ref(r.Intn(n)), rn()))
			}
		}
		base := rn()
		if r.Intn(4) == 0 {
			base = g.Mk(OpEmpty)
		}
		if r.Intn(2) == 0 {
			alts = append(alts, base)
		} else {
			alts = append([]*Expr{base}, alts...)
		}
		g.NTs[i] = g.Mk(OpAny, alts...)
	}
	return g
}

// StrLiterals are the double-quoted literals the OpStr leaves are sampled from: plain ones, and ones whose unquoted
// form is shorter than their raw form (escapes), which is where an unquoting parser has work to do
var StrLiterals = []string{`"a"`, `"ab"`, `""`, `"a\nb"`, `"\"q\""`, `"x\ty"`, `"\\"`, `"\u00e9b"`, `"b\n\n"`} // (no \x escapes: above \x7f the library decodes them as runes, strconv as bytes - C08's grey set)

// StrGrammar generates grammars over string literals and punctuation in which a literal is read more than once at one
// position (alternatives that share the literal as a prefix, left recursion with the literal as base case, lists)
func StrGrammar(r *rand.Rand) *Grammar {
	g := New(`ab"\=:,n`, 2)
	str := func() *Expr { return g.Mk(OpStr) }
	p := func() *Expr { return g.Rune("=:,"[r.Intn(3)]) }
	switch r.Intn(3) {
	case 0: // pairs: STR '=' STR | STR ':' STR | STR
		g.NTs[1] = g.Mk(OpAny, g.Mk(OpSeqOf, str(), g.Rune('='), str()), g.Mk(OpSeqOf, str(), g.Rune(':'), str()), str())
	case 1: // concatenation, left recursive with the literal as its base case
		g.NTs[1] = g.Mk(OpAny, g.Mk(OpSeqOf, g.Ref(1), p(), str()), str())
	default:
		g.NTs[1] = g.Mk(OpChoice, g.Mk(OpSeqOf, str(), p(), g.Ref(1)), g.Mk(OpSeqOf, str(), g.Mk(OpOpt, p())))
	}
	if r.Intn(2) == 0 {
		g.NTs[0] = g.Mk(OpSepBy1, g.Ref(1), g.Rune(','))
	} else {
		g.NTs[0] = g.Mk(OpAny, g.Mk(OpSeqOf, g.Ref(1), g.Rune(','), g.Ref(0)), g.Ref(1))
	}
	return g
}

// TypedGrammar generates token-level grammars over the library's TYPED terminals (OpLit: integer, float, bool, nil, char,
// time duration, word, regexp) and punctuation, every token trimmed one way or another: pairs and lists, a
// left-recursive list, and one literal consumed by differently trimmed alternatives at one position. With refOnly every
// RightTrim is the never-failing mode around the literal itself (the shapes the reference semantics models); without,
// RightTrim takes any mode and also wraps a reference to the MEMOIZED literal (the cached node is the one it moves).
func TypedGrammar(r *rand.Rand, refOnly bool, trims bool) *Grammar {
	g := New("nil1.5;,= \n'xs9-", 2)
	lit := func() *Expr { e := g.Mk(OpLit); e.C = byte(r.Intn(len(LitKinds))); return e }
	p := func() *Expr { return g.Rune(";,="[r.Intn(3)]) }
	lt := func(e *Expr) *Expr { w := g.Mk(OpLTrim, e); w.C = byte(r.Intn(4)); return w }
	rt := func(e *Expr) *Expr {
		w := g.Mk(OpRTrim, e)
		w.C = 2
		if !refOnly {
			w.C = byte(r.Intn(4))
		}
		return w
	}
	tok := func(e *Expr) *Expr {
		if !trims {
			return e
		}
		switch r.Intn(6) {
		case 0:
			return e
		case 1:
			return lt(e)
		case 2, 3:
			return rt(e)
		case 4:
			return lt(rt(e))
		default:
			return rt(lt(e))
		}
	}
	shape := r.Intn(3)
	if !trims {
		shape = r.Intn(2) // the third shape is about trimming
	}
	switch shape {
	case 0: // pairs and lists
		g.NTs[1] = g.Mk(OpAny, g.Mk(OpSeqOf, tok(lit()), tok(p()), tok(lit())), tok(lit()))
		g.NTs[0] = g.Mk(OpSepBy1, g.Ref(1), tok(g.Rune(',')))
	case 1: // a left-recursive list of literals
		g.NTs[1] = tok(lit())
		if r.Intn(2) == 0 {
			g.NTs[1] = g.Mk(OpAny, tok(lit()), tok(lit()))
		}
		g.NTs[0] = g.Mk(OpAny, g.Mk(OpSeqOf, g.Ref(0), tok(p()), g.Ref(1)), g.Ref(1))
	default: // one literal, consumed by differently trimmed alternatives at one position
		l := lit()
		g.NTs[1] = l
		same := func() *Expr {
			if refOnly {
				c := g.Mk(OpLit)
				c.C = l.C
				return c
			}
			return g.Ref(1)
		}
		var alts []*Expr
		for i, n := 0, 2+r.Intn(3); i < n; i++ {
			var first *Expr
			switch r.Intn(4) {
			case 0:
				first = same()
			case 1:
				first = lt(same())
			default:
				first = rt(same())
			}
			alts = append(alts, g.Mk(OpSeqOf, first, p()))
		}
		g.NTs[0] = g.Mk(OpAny, alts...)
		if r.Intn(2) == 0 {
			g.NTs[0] = g.Mk(OpMany1, g.Mk(OpAny, alts...))
		}
	}
	return g
}

// TrimSeq generates token-level grammars in which trimming meets optional and alternative tokens: a sequence of
// elements, each a rune, an optional rune, a left-trimmed (any mode) or right-trimmed (never-failing mode) one, or an
// Any of differently trimmed optional / plain alternatives - so that one result list holds empty matches and tokens
// that end on either side of a whitespace run. All operands are free of nonterminal references (fresh nodes).
func TrimSeq(r *rand.Rand) *Grammar {
	g := New("ab \n", 1)
	letters := "ab"
	// one token in eight is a multi-byte operator whose name the library also uses for nodes of its own ("EOF" is the
	// token of the end-of-input node, "EMPTY" of the empty match, "SEQ" of sequences): a token is what it matches, not
	// what it is called
	kws := []string{"EOF", "EOF", "EMPTY", "SEQ", "NIL", "ba"}
	rn := func() *Expr {
		if r.Intn(8) == 0 {
			return g.Kw(kws[r.Intn(len(kws))])
		}
		return g.Rune(letters[r.Intn(2)])
	}
	lt := func(e *Expr, mode int) *Expr { w := g.Mk(OpLTrim, e); w.C = byte(mode); return w }
	rt := func(e *Expr) *Expr { w := g.Mk(OpRTrim, e); w.C = 2; return w }
	elem := func() *Expr {
		if r.Intn(6) == 0 {
			// a "statement": an element of ambiguous length (either alternative order) followed by an optional terminator
			// that is a rune or the END OF INPUT - a nested sequence one of whose paths ends with an end-of-input node
			// while others end earlier
			first := []*Expr{g.Mk(OpSeqOf, rn(), rn()), rn()}
			if r.Intn(2) == 0 {
				first[0], first[1] = first[1], first[0]
			}
			if r.Intn(3) == 0 {
				// terminated by a KEYWORD that may also end the element itself: x KW | (x KW) KW - two paths of one sequence
				// that both end with a node of that keyword's token
				kw := kws[r.Intn(len(kws))]
				x := g.Rune(letters[r.Intn(2)])
				first = []*Expr{x, g.Mk(OpSeqOf, g.Rune(x.C), g.Kw(kw))}
				if r.Intn(2) == 0 {
					first[0], first[1] = first[1], first[0]
				}
				return g.Mk(OpSeqOf, g.Mk(OpAny, first...), g.Kw(kw))
			}
			term := g.Mk(OpAny, rn(), g.Mk(OpEnd))
			if r.Intn(2) == 0 {
				term = g.Mk(OpOpt, term)
			} else {
				term = g.Mk(OpAny, term, g.Mk(OpEmpty))
			}
			return g.Mk(OpSeqOf, g.Mk(OpAny, first...), term)
		}
		switch r.Intn(12) {
		case 0:
			return rn()
		case 1:
			return g.Mk(OpOpt, rn())
		case 2:
			return lt(rn(), r.Intn(4))
		case 3:
			return lt(g.Mk(OpOpt, rn()), r.Intn(4))
		case 4:
			return g.Mk(OpAny, g.Mk(OpOpt, rn()), lt(g.Mk(OpOpt, rn()), 2))
		case 5:
			return g.Mk(OpAny, lt(g.Mk(OpOpt, rn()), 2), g.Mk(OpOpt, rn()))
		case 6:
			return g.Mk(OpAny, lt(rn(), 2), rn())
		case 7:
			return rt(g.Mk(OpOpt, rn()))
		case 8:
			return rt(g.Mk(OpAny, rn(), g.Mk(OpSeqOf, rn(), rn())))
		case 9:
			return g.Mk(OpAny, g.Mk(OpEmpty), lt(g.Mk(OpEmpty), 2), rn())
		case 10:
			return g.Mk(OpChoice, lt(rn(), r.Intn(4)), lt(rn(), r.Intn(4)))
		default:
			return g.Mk(OpAny, rt(g.Mk(OpOpt, rn())), g.Mk(OpOpt, rn()))
		}
	}
	var kids []*Expr
	for i, k := 0, 2+r.Intn(4); i < k; i++ {
		kids = append(kids, elem())
	}
	g.NTs[0] = g.Mk(OpSeqOf, kids...)
	g.Memo[0] = r.Intn(2) == 0
	return g
}

// Sample draws a string derived from e by random expansion (ok=false: gave up)
func (g *Grammar) Sample(r *rand.Rand, e *Expr, depth int, out *[]byte, maxLen int) bool {
	if depth > 14 || len(*out) > maxLen {
		return false
	}
	switch e.Op {
	case OpRune:
		*out = append(*out, e.C)
		return true
	case OpKw:
		*out = append(*out, e.S...)
		return true
	case OpStr:
		*out = append(*out, StrLiterals[r.Intn(len(StrLiterals))]...)
		return true
	case OpLit:
		pool := LitKinds[e.C].Pool
		*out = append(*out, pool[r.Intn(len(pool))]...)
		return true
	case OpEmpty, OpEnd, OpMark:
		return true
	case OpNT:
		return g.Sample(r, g.NTs[e.NT], depth+1, out, maxLen)
	case OpAny, OpChoice:
		for try := 0; try < 4; try++ {
			k := e.Kids[r.Intn(len(e.Kids))]
			save := len(*out)
			if g.Sample(r, k, depth+1, out, maxLen) {
				return true
			}
			*out = (*out)[:save]
		}
		return false
	case OpSuppress, OpSingle:
		return g.Sample(r, e.Kids[0], depth, out, maxLen)
	case OpLTrim:
		if r.Intn(2) == 0 {
			*out = append(*out, " \n"[r.Intn(2)])
		}
		return g.Sample(r, e.Kids[0], depth+1, out, maxLen)
	case OpRTrim:
		if !g.Sample(r, e.Kids[0], depth+1, out, maxLen) {
			return false
		}
		if r.Intn(2) == 0 {
			*out = append(*out, " \n"[r.Intn(2)])
		}
		return true
	case OpOpt:
		if r.Intn(2) == 0 {
			return true
		}
		return g.Sample(r, e.Kids[0], depth+1, out, maxLen)
	case OpSeqOf:
		for _, k := range e.Kids {
			if !g.Sample(r, k, depth+1, out, maxLen) {
				return false
			}
		}
		return true
	case OpSeqTry, OpSeqFirstOrAll:
		n := len(e.Kids)
		if r.Intn(2) == 0 {
			n = 1
		}
		for _, k := range e.Kids[:n] {
			if !g.Sample(r, k, depth+1, out, maxLen) {
				return false
			}
		}
		return true
	case OpMany, OpMany1:
		n := r.Intn(3)
		if e.Op == OpMany1 {
			n++
		}
		for i := 0; i < n; i++ {
			if !g.Sample(r, e.Kids[0], depth+1, out, maxLen) {
				return false
			}
		}
		return true
	case OpSepBy, OpSepBy1:
		n := r.Intn(3)
		if e.Op == OpSepBy1 {
			n++
		}
		for i := 0; i < n; i++ {
			if i > 0 && !g.Sample(r, e.Kids[1], depth+1, out, maxLen) {
				return false
			}
			if !g.Sample(r, e.Kids[0], depth+1, out, maxLen) {
				return false
			}
		}
		return true
	}
	return false
}

// RandomInput draws an input for nonterminal nt: a string sampled from the
// grammar (possibly mutated) or a random string over the alphabet.
func (g *Grammar) RandomInput(r *rand.Rand, nt int, maxLen int, sampleBias int) string {
	if r.Intn(100) < sampleBias {
		var out []byte
		if g.Sample(r, g.NTs[nt], 0, &out, maxLen) && len(out) <= maxLen {
			if r.Intn(5) == 0 && len(out) > 0 { // one mutation
				out[r.Intn(len(out))] = g.Alpha[r.Intn(len(g.Alpha))]
			}
			return string(out)
		}
	}
	l := r.Intn(maxLen + 1)
	bs := make([]byte, l)
	for i := range bs {
		bs[i] = g.Alpha[r.Intn(len(g.Alpha))]
	}
	return string(bs)
}

// ---------------------------------------------------------------------------
// small-scope enumeration

// Shapes enumerates every single-nonterminal body with exactly n nodes over
// leaves {a, b, ε, N0} and the given operator set. ops: "basic" = SeqOf/2,
// Any/2, Any/3, Optional; "ext" adds Choice/2, Many, SeqTry/2.
func Shapes(n int, ext bool) []func(g *Grammar) *Expr {
	memo := map[int][]func(g *Grammar) *Expr{}
	var rec func(n int) []func(g *Grammar) *Expr
	rec = func(n int) []func(g *Grammar) *Expr {
		if v, ok := memo[n]; ok {
			return v
		}
		var out []func(g *Grammar) *Expr
		if n == 1 {
			for _, c := range []byte("ab") {
				c := c
				out = append(out, func(g *Grammar) *Expr { return g.Rune(c) })
			}
			out = append(out, func(g *Grammar) *Expr { return g.Mk(OpEmpty) })
			out = append(out, func(g *Grammar) *Expr { return g.Ref(0) })
		} else {
			unary := []Op{OpOpt}
			binary := []Op{OpSeqOf, OpAny}
			if ext {
				unary = append(unary, OpMany)
				binary = append(binary, OpChoice, OpSeqTry)
			}
			for _, k := range rec(n - 1) {
				k := k
				for _, op := range unary {
					op := op
					out = append(out, func(g *Grammar) *Expr { return g.Mk(op, k(g)) })
				}
			}
			for l := 1; l <= n-2; l++ {
				for _, a := range rec(l) {
					for _, b := range rec(n - 1 - l) {
						a, b := a, b
						for _, op := range binary {
							op := op
							out = append(out, func(g *Grammar) *Expr { return g.Mk(op, a(g), b(g)) })
						}
					}
				}
			}
			for l1 := 1; l1 <= n-3; l1++ {
				for l2 := 1; l1+l2 <= n-2; l2++ {
					l3 := n - 1 - l1 - l2
					if l3 < 1 {
						continue
					}
					for _, a := range rec(l1) {
						for _, b := range rec(l2) {
							for _, c := range rec(l3) {
								a, b, c := a, b, c
								out = append(out, func(g *Grammar) *Expr { return g.Mk(OpAny, a(g), b(g), c(g)) })
							}
						}
					}
				}
			}
		}
		memo[n] = out
		return out
	}
	return rec(n)
}

func AllInputs(alpha string, maxLen int) []string {
	out := []string{""}
	cur := []string{""}
	for l := 1; l <= maxLen; l++ {
		var nx []string
		for _, s := range cur {
			for _, c := range []byte(alpha) {
				nx = append(nx, s+string(c))
			}
		}
		out = append(out, nx...)
		cur = nx
	}
	return out
}

// ---------------------------------------------------------------------------
// seed corpus: the grammars named in the properties and in the repository's tests

type Seeded struct {
	Name   string
	G      *Grammar
	Inputs []string
}

func SeedCorpus() []Seeded {
	var out []Seeded
	add := func(name string, alpha string, n int, build func(g *Grammar), inputs ...string) {
		g := New(alpha, n)
		build(g)
		out = append(out, Seeded{name, g, inputs})
	}
	// P -> P b | a   (direct left recursion)
	add("direct P->Pb|a", "ab", 1, func(g *Grammar) {
		g.NTs[0] = g.Mk(OpAny, g.Mk(OpSeqOf, g.Ref(0), g.Rune('b')), g.Rune('a'))
	}, "", "a", "ab", "abb", "abbbbbbb", "b", "ba", "aab")
	// P -> (P | a | P?) b   (the published aliasing defect)
	add("P->(P|a|P?)b", "ab", 1, func(g *Grammar) {
		g.NTs[0] = g.Mk(OpSeqOf, g.Mk(OpAny, g.Ref(0), g.Rune('a'), g.Mk(OpOpt, g.Ref(0))), g.Rune('b'))
	}, "", "b", "bb", "ab", "abb", "abbb", "abbbb", "bbbb", "a")
	// P -> x? P b | a   (hidden left recursion)
	add("hidden P->x?Pb|a", "abx", 1, func(g *Grammar) {
		g.NTs[0] = g.Mk(OpAny, g.Mk(OpSeqOf, g.Mk(OpOpt, g.Rune('x')), g.Ref(0), g.Rune('b')), g.Rune('a'))
	}, "a", "ab", "abb", "xab", "xabb", "xxabb", "xaxbb", "x", "xb", "")
	// N -> (N N)?   (smallest activation-bound witness)
	add("N->(NN)?", "ab", 1, func(g *Grammar) {
		g.NTs[0] = g.Mk(OpOpt, g.Mk(OpSeqOf, g.Ref(0), g.Ref(0)))
	}, "", "a", "ab")
	// indirect: A -> B a | a ; B -> A b | b
	add("indirect A->Ba|a;B->Ab|b", "ab", 2, func(g *Grammar) {
		g.NTs[0] = g.Mk(OpAny, g.Mk(OpSeqOf, g.Ref(1), g.Rune('a')), g.Rune('a'))
		g.NTs[1] = g.Mk(OpAny, g.Mk(OpSeqOf, g.Ref(0), g.Rune('b')), g.Rune('b'))
	}, "a", "aba", "ababa", "ba", "bab", "b", "abab", "")
	// ambiguous sums: S -> S + S | a  (alphabet: a, b stands for +)
	add("ambiguous S->SbS|a", "ab", 1, func(g *Grammar) {
		g.NTs[0] = g.Mk(OpAny, g.Mk(OpSeqOf, g.Ref(0), g.Rune('b'), g.Ref(0)), g.Rune('a'))
	}, "a", "aba", "ababa", "abababa", "ab", "ba", "")
	// S -> S S | a | ε  (infinitely ambiguous)
	add("S->SS|a|eps", "ab", 1, func(g *Grammar) {
		g.NTs[0] = g.Mk(OpAny, g.Mk(OpSeqOf, g.Ref(0), g.Ref(0)), g.Rune('a'), g.Mk(OpEmpty))
	}, "", "a", "aa", "aaa", "ab")
	// right and centre recursion: R -> a R | a ; C -> a C b | ε
	add("right R->aR|a", "ab", 1, func(g *Grammar) {
		g.NTs[0] = g.Mk(OpAny, g.Mk(OpSeqOf, g.Rune('a'), g.Ref(0)), g.Rune('a'))
	}, "", "a", "aa", "aaaa", "ab")
	add("centre C->aCb|eps", "ab", 1, func(g *Grammar) {
		g.NTs[0] = g.Mk(OpAny, g.Mk(OpSeqOf, g.Rune('a'), g.Ref(0), g.Rune('b')), g.Mk(OpEmpty))
	}, "", "ab", "aabb", "aab", "abb", "ba")
	// expr/term over single bytes: E -> E b T | T ; T -> T c a | a   (b = '+', c = '*')
	add("E->EbT|T;T->Tca|a", "abc", 2, func(g *Grammar) {
		g.NTs[0] = g.Mk(OpAny, g.Mk(OpSeqOf, g.Ref(0), g.Rune('b'), g.Ref(1)), g.Ref(1))
		g.NTs[1] = g.Mk(OpAny, g.Mk(OpSeqOf, g.Ref(1), g.Rune('c'), g.Rune('a')), g.Rune('a'))
	}, "a", "aba", "aca", "abaca", "acaba", "ab", "ca", "")
	// left recursion under first-match: N -> Choice(SeqOf(M, b), a), M -> Many1(a) (stratified)
	add("Choice over Many1", "ab", 2, func(g *Grammar) {
		g.NTs[0] = g.Mk(OpChoice, g.Mk(OpSeqOf, g.Ref(1), g.Rune('b')), g.Rune('a'))
		g.NTs[1] = g.Mk(OpMany1, g.Rune('a'))
	}, "a", "ab", "aab", "aa", "b", "")
	// L -> SepBy1(L' , b) with L' -> L a | a : left recursion through a separated list's first element
	add("SepBy over LR", "abc", 2, func(g *Grammar) {
		g.NTs[0] = g.Mk(OpSepBy1, g.Ref(1), g.Rune('c'))
		g.NTs[1] = g.Mk(OpAny, g.Mk(OpSeqOf, g.Ref(1), g.Rune('b')), g.Rune('a'))
	}, "a", "ab", "abcab", "acac", "abbcabca", "c", "")
	// Z -> Z b | Z a | c ; T -> a | T S | S ; S -> Z | E b ; E -> Z? T | S   (declaration order matters: parser indices).
	// Regression corpus entry: the minimal grammar an independent fault seeder needed to make a persistence break in
	// IntSet.Union visible in parse results (seeded/S5-C01): curtailing sets of several parsers meet at one position and
	// one cached set is the receiver of several unions. Random families did not reach this shape in 27k grammars.
	add("layered Z/T/S/E (cached curtailing sets united several times)", "abc", 4, func(g *Grammar) {
		g.NTs[0] = g.Mk(OpAny, g.Mk(OpSeqOf, g.Ref(0), g.Rune('b')), g.Mk(OpSeqOf, g.Ref(0), g.Rune('a')), g.Rune('c'))
		g.NTs[1] = g.Mk(OpAny, g.Rune('a'), g.Mk(OpSeqOf, g.Ref(1), g.Ref(2)), g.Ref(2))
		g.NTs[2] = g.Mk(OpAny, g.Ref(0), g.Mk(OpSeqOf, g.Ref(3), g.Rune('b')))
		g.NTs[3] = g.Mk(OpAny, g.Mk(OpSeqOf, g.Mk(OpOpt, g.Ref(0)), g.Ref(1)), g.Ref(2))
	}, "ab", "abb", "abbb", "a", "c", "cb", "cab", "cabb", "acb", "")
	// hidden through Empty and Many: N -> ε N a | Many(b) N a | a
	add("hidden through Empty/Many", "ab", 1, func(g *Grammar) {
		g.NTs[0] = g.Mk(OpAny, g.Mk(OpSeqOf, g.Mk(OpEmpty), g.Ref(0), g.Rune('a')), g.Mk(OpSeqOf, g.Mk(OpMany, g.Rune('b')), g.Ref(0), g.Rune('a')), g.Rune('a'))
	}, "a", "aa", "baa", "bbaaa", "abaa", "")
	return out
}

// ---------------------------------------------------------------------------
// history / sharing templates (C07, C03): one memoized producer with k
// alternatives (k controls the spare capacity of its result list) is consumed
// several times at ONE input position by combinators that append to what they
// got. This is where aliasing of a cached result list becomes observable.

type SharingOpts struct {
	Trims bool // allow RightTrim consumers (C07's known finding K1 lives there)
}

func Sharing(r *rand.Rand, o SharingOpts) *Grammar {
	alpha := "ab"
	if o.Trims {
		alpha = "ab "
	}
	g := New(alpha, 2)
	letters := "ab"
	leaf := func() *Expr {
		switch r.Intn(6) {
		case 0:
			return g.Mk(OpEmpty)
		case 1:
			return g.Mk(OpSeqOf)
		case 2:
			return g.Mk(OpSeqOf, g.Mk(OpEmpty))
		case 3:
			return g.Mk(OpSeqOf, g.Rune(letters[r.Intn(2)]))
		default:
			return g.Rune(letters[r.Intn(2)])
		}
	}
	// producer: k alternatives
	k := 1 + r.Intn(7)
	var alts []*Expr
	for i := 0; i < k; i++ {
		alts = append(alts, leaf())
	}
	g.NTs[1] = g.Mk(OpAny, alts...)
	consumer := func() *Expr {
		m := func() *Expr { return g.Ref(1) }
		n := 13
		if o.Trims {
			n = 16
		}
		if r.Intn(9) == 0 {
			// a sequence with a result handler of the user's own that hands back the first matched node - the producer's
			// (cached) node - although the match went on: nobody may move that node's end to the end of the match
			return g.Mk(OpSeqPickFirst, m(), leaf())
		}
		if r.Intn(6) == 0 {
			// one Optional over the producer, extended by a consumer of its own: several of these in one grammar are
			// structurally equal, and with Hooks.ShareExprs they are ONE Optional value mentioned in several rules
			if r.Intn(2) == 0 {
				return g.Mk(OpAny, g.Mk(OpOpt, m()), leaf())
			}
			return g.Mk(OpSeqOf, g.Mk(OpAny, g.Mk(OpOpt, m()), leaf()), leaf())
		}
		switch r.Intn(n) {
		case 0:
			return g.Mk(OpAny, m(), leaf())
		case 1:
			return g.Mk(OpOpt, m())
		case 2:
			return g.Mk(OpSeqOf, m(), leaf())
		case 3:
			return g.Mk(OpAny, m(), m())
		case 4:
			return g.Mk(OpAny, leaf(), m(), leaf())
		case 5:
			return g.Mk(OpOpt, g.Mk(OpAny, m(), leaf()))
		case 6:
			return g.Mk(OpSeqOf, g.Mk(OpOpt, m()), leaf())
		case 7:
			return m()
		case 8:
			return g.Mk(OpSingle, m())
		case 9:
			return g.Mk(OpAny, g.Mk(OpSingle, m()), leaf())
		case 10:
			return g.Mk(OpSuppress, g.Mk(OpAny, m(), leaf()))
		case 11:
			return g.Mk(OpSeqRetSingle, m())
		case 12:
			return g.Mk(OpAny, g.Mk(OpSeqRetSingle, m()), leaf())
		case 13, 14:
			e := g.Mk(OpRTrim, m())
			e.C = byte(1 + r.Intn(2)) // WsSpaces, WsSpacesNl
			return e
		default:
			e := g.Mk(OpRTrim, g.Mk(OpAny, m(), leaf()))
			e.C = 2
			return e
		}
	}
	nc := 2 + r.Intn(4)
	var cs []*Expr
	for i := 0; i < nc; i++ {
		cs = append(cs, consumer())
	}
	// consumers at one position: alternatives of an Any, or elements of a sequence (zero-width producers)
	if r.Intn(2) == 0 {
		g.NTs[0] = g.Mk(OpAny, cs...)
	} else {
		g.NTs[0] = g.Mk(OpSeqOf, cs...)
	}
	return g
}

// Shapes2 enumerates bodies with exactly n nodes for a two-nonterminal grammar: leaves {a, b, eps, N0, N1},
// operators SeqOf/2, Any/2, Optional. Used for the exhaustive small scope of mutually recursive grammars.
func Shapes2(n int) []func(g *Grammar) *Expr {
	memo := map[int][]func(g *Grammar) *Expr{}
	var rec func(n int) []func(g *Grammar) *Expr
	rec = func(n int) []func(g *Grammar) *Expr {
		if v, ok := memo[n]; ok {
			return v
		}
		var out []func(g *Grammar) *Expr
		if n == 1 {
			for _, c := range []byte("ab") {
				c := c
				out = append(out, func(g *Grammar) *Expr { return g.Rune(c) })
			}
			out = append(out, func(g *Grammar) *Expr { return g.Mk(OpEmpty) })
			out = append(out, func(g *Grammar) *Expr { return g.Ref(0) })
			out = append(out, func(g *Grammar) *Expr { return g.Ref(1) })
		} else {
			for _, k := range rec(n - 1) {
				k := k
				out = append(out, func(g *Grammar) *Expr { return g.Mk(OpOpt, k(g)) })
			}
			for l := 1; l <= n-2; l++ {
				for _, a := range rec(l) {
					for _, b := range rec(n - 1 - l) {
						a, b := a, b
						out = append(out, func(g *Grammar) *Expr { return g.Mk(OpSeqOf, a(g), b(g)) })
						out = append(out, func(g *Grammar) *Expr { return g.Mk(OpAny, a(g), b(g)) })
					}
				}
			}
		}
		memo[n] = out
		return out
	}
	var all []func(g *Grammar) *Expr
	for k := 1; k <= n; k++ {
		all = append(all, rec(k)...)
	}
	return all
}

// LayeredLR: one base nonterminal Z with two or three directly left-recursive alternatives (Z -> Z b | Z a | c) sits at
// the LEFT EDGE of two or three other memoized nonterminals that are declared later and are recursive among themselves,
// some of them reaching Z through an optional prefix (E -> Z? T | S). Curtailing-parser sets of several parsers then
// meet at one position and are merged in different orders - which is what context-sensitive reuse of cached results
// and the set operations behind it need in order to matter.
func LayeredLR(r *rand.Rand) *Grammar {
	n := 3 + r.Intn(2)
	g := New("abc", n)
	rn := func() *Expr { return g.Rune(g.Alpha[r.Intn(len(g.Alpha))]) }
	// base
	var zalts []*Expr
	for k := 2 + r.Intn(2); k > 0; k-- {
		zalts = append(zalts, g.Mk(OpSeqOf, g.Ref(0), rn()))
	}
	zalts = append(zalts, rn())
	g.NTs[0] = g.Mk(OpAny, zalts...)
	upper := func() *Expr { return g.Ref(1 + r.Intn(n-1)) }
	anyRef := func() *Expr {
		if r.Intn(3) == 0 {
			return g.Ref(0)
		}
		return upper()
	}
	for i := 1; i < n; i++ {
		var alts []*Expr
		for k := 2 + r.Intn(2); k > 0; k-- {
			switch r.Intn(8) {
			case 0:
				alts = append(alts, g.Ref(0))
			case 1:
				alts = append(alts, g.Mk(OpSeqOf, g.Mk(OpOpt, g.Ref(0)), upper()))
			case 2:
				alts = append(alts, g.Mk(OpSeqOf, anyRef(), upper()))
			case 3:
				alts = append(alts, g.Mk(OpSeqOf, anyRef(), rn()))
			case 4:
				alts = append(alts, upper())
			case 5:
				alts = append(alts, rn())
			case 6:
				alts = append(alts, g.Mk(OpSeqOf, g.Mk(OpOpt, upper()), anyRef()))
			default:
				alts = append(alts, g.Mk(OpSeqOf, g.Ref(0), rn()))
			}
		}
		g.NTs[i] = g.Mk(OpAny, alts...)
	}
	return g
}
