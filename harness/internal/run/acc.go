// Package run contains the driver/worker plumbing shared by all checks:
// jobs, accumulators, journals, verdicts, evidence and replay files.
package run

import (
	"bytes"
	"encoding/binary"
	"encoding/json"
	"fmt"
	"hash/fnv"
	"os"
	"sort"
)

// Job is one unit of work of a check. It is a pure function of (tier, seed):
// the cases a job runs are determined by its fields only.
type Job struct {
	Family string         `json:"family"`
	Seed   int64          `json:"seed"`
	N      int            `json:"n,omitempty"`
	Lo     int            `json:"lo,omitempty"`
	Hi     int            `json:"hi,omitempty"`
	P      map[string]int `json:"p,omitempty"`
	S      string         `json:"s,omitempty"`
}

func (j Job) Param(k string, def int) int {
	if v, ok := j.P[k]; ok {
		return v
	}
	return def
}

// Violation is a refuting observation together with what is needed to replay it.
type Violation struct {
	Property string      `json:"property"`
	Kind     string      `json:"kind"`
	Sig      string      `json:"signature"`
	Job      Job         `json:"job"`
	JobIdx   int         `json:"job_index"`
	Case     int         `json:"case"`
	Detail   interface{} `json:"detail"`
}

// Acc accumulates what a worker observed.
type Acc struct {
	Property   string                 `json:"property"`
	Counters   map[string]int64       `json:"counters"`
	Max        map[string]int64       `json:"max"`
	Samples    map[string][]any       `json:"samples"`
	Violations []Violation            `json:"violations"`
	NViol      int64                  `json:"n_violations"`
	Known      map[string]int64       `json:"known"`
	KnownEx    map[string]interface{} `json:"known_examples"`
	Evals      int64                  `json:"evaluations"`
	Hashes     []uint64               `json:"-"`
	Notes      []string               `json:"notes,omitempty"`

	distinct map[uint64]struct{}
	journal  *os.File
	sidecar  *os.File // violations are appended here as they happen: they survive a worker that is killed later
	jobIdx   int
	job      Job
	caseIdx  int
	Only     int  `json:"-"` // replay filter: run only this case of the job (-1: all)
	Verbose  bool `json:"-"`
	findings []Finding
}

func NewAcc(prop string) *Acc {
	return &Acc{
		Property: prop,
		Counters: map[string]int64{},
		Max:      map[string]int64{},
		Samples:  map[string][]any{},
		Known:    map[string]int64{},
		KnownEx:  map[string]interface{}{},
		distinct: map[uint64]struct{}{},
		Only:     -1,
	}
}

func (a *Acc) SetFindings(f []Finding) { a.findings = f }

// StartJob resets the case counter.
func (a *Acc) StartJob(idx int, j Job) {
	a.jobIdx, a.job, a.caseIdx = idx, j, -1
	a.writeJournal()
}

func (a *Acc) writeJournal() {
	if a.journal == nil {
		return
	}
	var b [16]byte
	binary.LittleEndian.PutUint64(b[0:], uint64(int64(a.jobIdx)))
	binary.LittleEndian.PutUint64(b[8:], uint64(int64(a.caseIdx)))
	a.journal.WriteAt(b[:], 0)
}

// Begin announces the next case of the current job. It returns false if the
// case must be skipped (replay of a single case). The journal is updated
// before the case runs, so that a fatal crash can be attributed.
func (a *Acc) Begin() bool {
	a.caseIdx++
	if a.Only >= 0 && a.caseIdx != a.Only {
		return false
	}
	a.writeJournal()
	a.Evals++
	return true
}

func (a *Acc) CaseIdx() int { return a.caseIdx }

func (a *Acc) Count(key string, n int64) { a.Counters[key] += n }

func (a *Acc) SetMax(key string, v int64) {
	if cur, ok := a.Max[key]; !ok || v > cur {
		a.Max[key] = v
	}
}

func Hash(s string) uint64 {
	h := fnv.New64a()
	h.Write([]byte(s))
	return h.Sum64()
}

// NonTrivial records a distinct non-trivial case.
func (a *Acc) NonTrivial(caseKey string) {
	a.distinct[Hash(caseKey)] = struct{}{}
}

// Sample keeps a few cases per class so the evidence can show them.
func (a *Acc) Sample(class string, v any) {
	if len(a.Samples[class]) < 2 {
		a.Samples[class] = append(a.Samples[class], v)
	}
}

// Violate records a violation, unless its signature is a listed known finding.
func (a *Acc) Violate(kind, sig string, detail any) {
	for _, f := range a.findings {
		if f.Property == a.Property && f.Sig == sig {
			a.Known[sig]++
			if _, ok := a.KnownEx[sig]; !ok {
				a.KnownEx[sig] = detail
			}
			return
		}
	}
	a.NViol++
	a.Counters["violation:"+kind]++
	if a.Verbose {
		b, _ := json.MarshalIndent(detail, "", "  ")
		fmt.Printf("violation kind=%s sig=%s\n%s\n", kind, sig, b)
	}
	if len(a.Violations) < 12 {
		v := Violation{
			Property: a.Property, Kind: kind, Sig: sig, Job: a.job, JobIdx: a.jobIdx, Case: a.caseIdx, Detail: detail,
		}
		a.Violations = append(a.Violations, v)
		if a.sidecar != nil {
			if b, err := json.Marshal(v); err == nil {
				a.sidecar.Write(append(b, '\n'))
			}
		}
	}
}

// LoadSidecar reads the violations a worker recorded before it died.
func LoadSidecar(path string) []Violation {
	b, err := os.ReadFile(path)
	if err != nil {
		return nil
	}
	var out []Violation
	for _, line := range bytes.Split(b, []byte("\n")) {
		var v Violation
		if len(line) > 0 && json.Unmarshal(line, &v) == nil && v.Kind != "" {
			out = append(out, v)
		}
	}
	return out
}

func (a *Acc) Note(format string, args ...any) {
	if len(a.Notes) < 20 {
		a.Notes = append(a.Notes, fmt.Sprintf(format, args...))
	}
}

// finish moves the distinct set into the serialised form
func (a *Acc) finish() {
	a.Hashes = a.Hashes[:0]
	for h := range a.distinct {
		a.Hashes = append(a.Hashes, h)
	}
	sort.Slice(a.Hashes, func(i, j int) bool { return a.Hashes[i] < a.Hashes[j] })
}

func (a *Acc) Distinct() int { return len(a.distinct) }

// Merge adds another accumulator into this one
func (a *Acc) Merge(b *Acc) {
	for k, v := range b.Counters {
		a.Counters[k] += v
	}
	for k, v := range b.Max {
		a.SetMax(k, v)
	}
	for k, v := range b.Samples {
		for _, s := range v {
			if len(a.Samples[k]) < 2 {
				a.Samples[k] = append(a.Samples[k], s)
			}
		}
	}
	for _, v := range b.Violations {
		if len(a.Violations) < 12 {
			a.Violations = append(a.Violations, v)
		}
	}
	a.NViol += b.NViol
	for k, v := range b.Known {
		a.Known[k] += v
		if _, ok := a.KnownEx[k]; !ok {
			a.KnownEx[k] = b.KnownEx[k]
		}
	}
	a.Evals += b.Evals
	for _, h := range b.Hashes {
		a.distinct[h] = struct{}{}
	}
	for h := range b.distinct {
		a.distinct[h] = struct{}{}
	}
	for _, n := range b.Notes {
		if len(a.Notes) < 40 {
			a.Notes = append(a.Notes, n)
		}
	}
}

type accFile struct {
	Acc    *Acc     `json:"acc"`
	Hashes []uint64 `json:"hashes"`
	Done   bool     `json:"done"`
}

func (a *Acc) Save(path string) error {
	a.finish()
	b, err := json.Marshal(accFile{Acc: a, Hashes: a.Hashes, Done: true})
	if err != nil {
		return err
	}
	return os.WriteFile(path, b, 0o644)
}

func LoadAcc(path string) (*Acc, error) {
	b, err := os.ReadFile(path)
	if err != nil {
		return nil, err
	}
	var f accFile
	if err := json.Unmarshal(b, &f); err != nil {
		return nil, err
	}
	if f.Acc == nil || !f.Done {
		return nil, fmt.Errorf("incomplete accumulator file %s", path)
	}
	f.Acc.Hashes = f.Hashes
	f.Acc.distinct = map[uint64]struct{}{}
	if f.Acc.Counters == nil {
		f.Acc.Counters = map[string]int64{}
	}
	if f.Acc.Max == nil {
		f.Acc.Max = map[string]int64{}
	}
	if f.Acc.Samples == nil {
		f.Acc.Samples = map[string][]any{}
	}
	if f.Acc.Known == nil {
		f.Acc.Known = map[string]int64{}
	}
	if f.Acc.KnownEx == nil {
		f.Acc.KnownEx = map[string]interface{}{}
	}
	return f.Acc, nil
}
