package run

import (
	"encoding/binary"
	"encoding/json"
	"fmt"
	"os"
	"os/exec"
	"path/filepath"
	"runtime"
	"runtime/debug"
	"sort"
	"strconv"
	"strings"
	"sync"
	"syscall"
	"time"
)

// Check is one registered property check.
type Check struct {
	ID          string
	Title       string
	Race        bool // the worker binary is built with -race; no RLIMIT_AS
	Plan        func(tier string, seed int64) []Job
	Exec        func(j Job, a *Acc)
	Finish      func(tier string, a *Acc, cov map[string]any) (inconclusive string)
	Post        func(outdir string, a *Acc) // optional: driver-side inspection of worker artefacts
	Assumptions []string
	MaxWorkers  int
	SerialJobs  bool // jobs must not share a worker process with other jobs (one process per job)
}

var registry = map[string]*Check{}

func Register(c *Check) { registry[c.ID] = c }

func Lookup(id string) *Check { return registry[id] }

func IDs() []string {
	var ids []string
	for k := range registry {
		ids = append(ids, k)
	}
	sort.Strings(ids)
	return ids
}

func Root() string {
	if r := os.Getenv("VERIF_ROOT"); r != "" {
		return r
	}
	exe, err := os.Executable()
	if err == nil {
		return filepath.Clean(filepath.Join(filepath.Dir(exe), "..", ".."))
	}
	return "/verif"
}

// Evidence is the evidence file (EVIDENCE.schema.json)
type Evidence struct {
	PropertyID  string         `json:"property_id"`
	Tier        string         `json:"tier"`
	Seed        int64          `json:"seed"`
	Level       string         `json:"level"`
	Coverage    map[string]any `json:"coverage"`
	Assumptions []string       `json:"assumptions,omitempty"`
	WallS       float64        `json:"wall_s"`
	Violations  int64          `json:"violations"`
	Verdict     string         `json:"verdict"`
	Known       map[string]any `json:"known_findings_seen,omitempty"`
	RepoHead    string         `json:"repo_head,omitempty"`
}

const (
	ExitOK           = 0
	ExitViolation    = 1
	ExitInconclusive = 2
)

// OutRoot is where work files, evidence and replay files are written (default: Root). The
// mutant self-test points it elsewhere so that it never rewrites the real evidence.
func OutRoot() string {
	if r := os.Getenv("VERIF_OUT"); r != "" {
		return r
	}
	return Root()
}

const isolatedBase = 100000

// workerFileIdx: the index used in a worker's file names (isolated workers are named after their job)
func workerFileIdx(w, shared int, isolated []int) int {
	if w >= shared {
		return isolatedBase + isolated[w-shared]
	}
	return w
}

func watchdog(tier string) time.Duration {
	if s := os.Getenv("VERIF_WATCHDOG_S"); s != "" {
		if n, err := strconv.Atoi(s); err == nil {
			return time.Duration(n) * time.Second
		}
	}
	if tier == "thorough" {
		return 150 * time.Minute
	}
	return 20 * time.Minute
}

// Drive runs a check: plans the jobs, runs them in worker child processes,
// merges what they observed, writes the evidence file and returns the exit code.
func Drive(c *Check, tier string, seed int64) int {
	start := time.Now()
	root := Root()
	oroot := OutRoot()
	outdir := filepath.Join(oroot, "work", c.ID)
	os.RemoveAll(outdir)
	if err := os.MkdirAll(outdir, 0o755); err != nil {
		fmt.Println("cannot create work dir:", err)
		return ExitInconclusive
	}
	os.RemoveAll(filepath.Join(oroot, "replays", c.ID)) // replay files belong to one run
	jobs := c.Plan(tier, seed)
	nw := runtime.NumCPU()
	if c.MaxWorkers > 0 && nw > c.MaxWorkers {
		nw = c.MaxWorkers
	}
	if c.SerialJobs {
		nw = len(jobs)
	}
	if nw > len(jobs) {
		nw = len(jobs)
	}
	if nw < 1 {
		nw = 1
	}
	// jobs marked isolated (P["isolated"]=1) get a worker process of their own: they are expected to be able to kill it
	var isolated []int
	if !c.SerialJobs {
		for i, j := range jobs {
			if j.Param("isolated", 0) == 1 {
				isolated = append(isolated, i)
			}
		}
	}
	shared := nw
	nw += len(isolated)
	exe, _ := os.Executable()
	type wres struct {
		err      error
		timedOut bool
	}
	results := make([]wres, nw)
	var wg sync.WaitGroup
	par := make(chan struct{}, runtime.NumCPU())
	for w := 0; w < nw; w++ {
		wg.Add(1)
		go func(w int) {
			defer wg.Done()
			par <- struct{}{}
			defer func() { <-par }()
			logf, _ := os.Create(filepath.Join(outdir, fmt.Sprintf("w%d.log", workerFileIdx(w, shared, isolated))))
			defer logf.Close()
			widx, wn := w, shared
			if w >= shared {
				widx = isolatedBase + isolated[w-shared] // this worker runs exactly that job
			}
			cmd := exec.Command(exe, "worker", c.ID, tier, strconv.FormatInt(seed, 10), strconv.Itoa(widx), strconv.Itoa(wn), outdir)
			cmd.Stdout = logf
			cmd.Stderr = logf
			cmd.Env = append(os.Environ(), "VERIF_ROOT="+root, "GOTRACEBACK=single")
			if c.Race {
				cmd.Env = append(cmd.Env, "GORACE=halt_on_error=0 log_path="+filepath.Join(outdir, fmt.Sprintf("race.w%d", workerFileIdx(w, shared, isolated))))
			}
			if err := cmd.Start(); err != nil {
				results[w].err = err
				return
			}
			done := make(chan error, 1)
			go func() { done <- cmd.Wait() }()
			select {
			case err := <-done:
				results[w].err = err
			case <-time.After(watchdog(tier)):
				results[w].timedOut = true
				cmd.Process.Signal(syscall.SIGQUIT)
				select {
				case <-done:
				case <-time.After(10 * time.Second):
					cmd.Process.Kill()
					<-done
				}
			}
		}(w)
	}
	wg.Wait()

	findings, _ := LoadFindings(filepath.Join(root, "KNOWN_FINDINGS.txt"))
	total := NewAcc(c.ID)
	total.SetFindings(findings)
	var inconclusive []string
	for w := 0; w < nw; w++ {
		fidx := workerFileIdx(w, shared, isolated)
		accPath := filepath.Join(outdir, fmt.Sprintf("w%d.json", fidx))
		a, err := LoadAcc(accPath)
		if err == nil {
			total.Merge(a)
			if results[w].err != nil && !c.Race {
				inconclusive = append(inconclusive, fmt.Sprintf("worker %d wrote its result but exited with %v", w, results[w].err))
			}
			continue
		}
		// the worker died: classify
		logPath := filepath.Join(outdir, fmt.Sprintf("w%d.log", fidx))
		logb, _ := os.ReadFile(logPath)
		logs := string(logb)
		jobIdx, caseIdx := readJournal(filepath.Join(outdir, fmt.Sprintf("w%d.journal", fidx)))
		// what the worker had already observed before it died still counts
		for _, v := range LoadSidecar(filepath.Join(outdir, fmt.Sprintf("w%d.violations", fidx))) {
			total.NViol++
			total.Counters["violation:"+v.Kind]++
			if len(total.Violations) < 12 {
				total.Violations = append(total.Violations, v)
			}
		}
		switch {
		case results[w].timedOut:
			inconclusive = append(inconclusive, fmt.Sprintf("worker %d hit the wall-clock watchdog at job %d case %d", w, jobIdx, caseIdx))
		case strings.Contains(logs, "out of memory") || strings.Contains(logs, "cannot allocate memory") || strings.Contains(fmt.Sprint(results[w].err), "killed"):
			inconclusive = append(inconclusive, fmt.Sprintf("worker %d ran out of memory at job %d case %d", w, jobIdx, caseIdx))
		case !strings.Contains(logs, "stack overflow") && !strings.Contains(logs, "goroutine stack exceeds") && crashedInHarness(logs):
			// a bug of the harness itself is not an observation about the library
			banner := logs
			if len(banner) > 1500 {
				banner = banner[:1500]
			}
			inconclusive = append(inconclusive, fmt.Sprintf("worker %d crashed inside the harness (job %d case %d): %s", w, jobIdx, caseIdx, strings.ReplaceAll(banner, "\n", " | ")))
		default:
			kind := "fatal-crash"
			if strings.Contains(logs, "stack overflow") || strings.Contains(logs, "goroutine stack exceeds") {
				kind = "stack-overflow"
			}
			var job Job
			if jobIdx >= 0 && jobIdx < len(jobs) {
				job = jobs[jobIdx]
			}
			banner := logs
			if len(banner) > 3000 {
				banner = banner[:3000]
			}
			total.job, total.jobIdx, total.caseIdx = job, jobIdx, caseIdx
			sig := kind
			if job.S != "" {
				// jobs that name their input get a signature of their own, so that a known finding about one
				// specific input never hides a crash anywhere else
				sig = kind + ":" + job.Family + ":" + job.S
			}
			total.Violate(kind, sig, map[string]any{"worker": w, "job": job, "exit": fmt.Sprint(results[w].err), "banner": banner})
		}
	}
	if c.Post != nil {
		c.Post(outdir, total)
	}

	cov := map[string]any{}
	inc := ""
	if c.Finish != nil {
		inc = c.Finish(tier, total, cov)
	}
	if inc != "" {
		inconclusive = append(inconclusive, inc)
	}
	cov["evaluations"] = total.Evals
	if _, ok := cov["distinct_nontrivial"]; !ok {
		cov["distinct_nontrivial"] = total.Distinct()
	}
	counters := map[string]int64{}
	for k, v := range total.Counters {
		counters[k] = v
	}
	cov["observed"] = counters
	if len(total.Max) > 0 {
		cov["observed_max"] = total.Max
	}
	var samples []any
	var classes []string
	for k := range total.Samples {
		classes = append(classes, k)
	}
	sort.Strings(classes)
	for _, k := range classes {
		for _, s := range total.Samples[k] {
			samples = append(samples, map[string]any{"class": k, "case": s})
		}
	}
	cov["samples"] = samples
	cov["jobs"] = len(jobs)
	cov["worker_processes"] = nw
	if len(total.Notes) > 0 {
		cov["notes"] = total.Notes
	}
	if len(inconclusive) > 0 {
		cov["inconclusive"] = inconclusive
	}

	// replay files and verdict lines
	code := ExitOK
	verdict := "held on what was observed"
	var knownKeys []string
	for k := range total.Known {
		knownKeys = append(knownKeys, k)
	}
	sort.Strings(knownKeys)
	knownOut := map[string]any{}
	for _, k := range knownKeys {
		txt := ""
		for _, f := range findings {
			if f.Property == c.ID && f.Sig == k {
				txt = f.Text
			}
		}
		fmt.Printf("KNOWN-FINDING: property=%s sig=%s occurrences=%d %s\n", c.ID, k, total.Known[k], txt)
		knownOut[k] = map[string]any{"occurrences": total.Known[k], "example": total.KnownEx[k]}
	}
	if total.NViol > 0 {
		code = ExitViolation
		verdict = "violated"
		rdir := filepath.Join(oroot, "replays", c.ID)
		os.MkdirAll(rdir, 0o755)
		for i, v := range total.Violations {
			p := filepath.Join(rdir, fmt.Sprintf("%s-%s-seed%d-%d.json", tier, sanitize(v.Kind), seed, i))
			b, _ := json.MarshalIndent(map[string]any{"property": c.ID, "tier": tier, "seed": seed, "violation": v}, "", "  ")
			os.WriteFile(p, b, 0o644)
			fmt.Printf("VIOLATION property=%s replay=%s kind=%s\n", c.ID, p, v.Kind)
		}
	} else if len(inconclusive) > 0 {
		code = ExitInconclusive
		verdict = "inconclusive"
		for _, s := range inconclusive {
			fmt.Printf("INCONCLUSIVE property=%s %s\n", c.ID, s)
		}
	}

	ev := Evidence{
		PropertyID: c.ID, Tier: tier, Seed: seed, Level: "exploration", Coverage: cov,
		Assumptions: c.Assumptions, WallS: time.Since(start).Seconds(), Violations: total.NViol,
		Verdict: verdict, Known: knownOut, RepoHead: repoHead(),
	}
	b, _ := json.MarshalIndent(ev, "", " ")
	os.MkdirAll(filepath.Join(oroot, "evidence"), 0o755)
	if err := os.WriteFile(filepath.Join(oroot, "evidence", c.ID+".json"), b, 0o644); err != nil {
		fmt.Println("cannot write evidence:", err)
		if code == ExitOK {
			code = ExitInconclusive
		}
	}
	// summary for the log
	fmt.Printf("%s tier=%s seed=%d verdict=%q evaluations=%d distinct_nontrivial=%v violations=%d wall=%.1fs\n",
		c.ID, tier, seed, verdict, total.Evals, cov["distinct_nontrivial"], total.NViol, time.Since(start).Seconds())
	var keys []string
	for k := range counters {
		keys = append(keys, k)
	}
	sort.Strings(keys)
	for _, k := range keys {
		fmt.Printf("  %-44s %d\n", k, counters[k])
	}
	var mkeys []string
	for k := range total.Max {
		mkeys = append(mkeys, k)
	}
	sort.Strings(mkeys)
	for _, k := range mkeys {
		fmt.Printf("  max %-40s %d\n", k, total.Max[k])
	}
	if code == ExitOK {
		os.RemoveAll(outdir)
	}
	return code
}

// crashedInHarness: the innermost non-runtime frame of the crash banner belongs to the harness
func crashedInHarness(logs string) bool {
	for _, line := range strings.Split(logs, "\n") {
		if !strings.HasPrefix(line, "\t/") {
			continue
		}
		if strings.Contains(line, "/src/runtime/") || strings.Contains(line, "/src/internal/") {
			continue
		}
		return strings.Contains(line, "/harness/")
	}
	return false
}

func sanitize(s string) string {
	var b strings.Builder
	for _, r := range s {
		if r >= 'a' && r <= 'z' || r >= 'A' && r <= 'Z' || r >= '0' && r <= '9' || r == '-' || r == '_' {
			b.WriteRune(r)
		} else {
			b.WriteByte('_')
		}
	}
	out := b.String()
	if len(out) > 40 {
		out = out[:40]
	}
	return out
}

func repoHead() string {
	out, err := exec.Command("git", "-C", "/repo", "rev-parse", "--short", "HEAD").Output()
	if err != nil {
		return ""
	}
	st, _ := exec.Command("git", "-C", "/repo", "status", "--porcelain", "--untracked-files=no").Output()
	h := strings.TrimSpace(string(out))
	if len(strings.TrimSpace(string(st))) > 0 {
		h += "+dirty"
	}
	return h
}

func readJournal(path string) (int, int) {
	b, err := os.ReadFile(path)
	if err != nil || len(b) < 16 {
		return -1, -1
	}
	return int(int64(binary.LittleEndian.Uint64(b[0:]))), int(int64(binary.LittleEndian.Uint64(b[8:])))
}

// Worker runs the jobs assigned to worker widx of nw.
func Worker(c *Check, tier string, seed int64, widx, nw int, outdir string) int {
	if !c.Race {
		// address-space limit: a runaway case dies here instead of taking the machine down
		var lim syscall.Rlimit
		lim.Cur, lim.Max = 8<<30, 8<<30
		syscall.Setrlimit(syscall.RLIMIT_AS, &lim)
	}
	debug.SetMemoryLimit(3 << 30)
	// the goroutine stack limit is left at Go's default (1 GB on 64-bit): a stack overflow observed here is one a user would see
	jobs := c.Plan(tier, seed)
	acc := NewAcc(c.ID)
	findings, _ := LoadFindings(filepath.Join(Root(), "KNOWN_FINDINGS.txt"))
	acc.SetFindings(findings)
	j, err := os.Create(filepath.Join(outdir, fmt.Sprintf("w%d.journal", widx)))
	if err == nil {
		acc.journal = j
		defer j.Close()
	}
	if sc, err := os.Create(filepath.Join(outdir, fmt.Sprintf("w%d.violations", widx))); err == nil {
		acc.sidecar = sc
		defer sc.Close()
	}
	for i, job := range jobs {
		iso := !c.SerialJobs && job.Param("isolated", 0) == 1
		switch {
		case widx >= isolatedBase:
			if i != widx-isolatedBase {
				continue
			}
		case iso || i%nw != widx:
			continue
		}
		acc.StartJob(i, job)
		c.Exec(job, acc)
	}
	if err := acc.Save(filepath.Join(outdir, fmt.Sprintf("w%d.json", widx))); err != nil {
		fmt.Println("cannot save accumulator:", err)
		return 3
	}
	return 0
}

// Replay re-runs the single case named in a replay file, verbosely.
func Replay(path string) int {
	b, err := os.ReadFile(path)
	if err != nil {
		fmt.Println(err)
		return ExitInconclusive
	}
	var rf struct {
		Property  string    `json:"property"`
		Tier      string    `json:"tier"`
		Seed      int64     `json:"seed"`
		Violation Violation `json:"violation"`
	}
	if err := json.Unmarshal(b, &rf); err != nil {
		fmt.Println(err)
		return ExitInconclusive
	}
	c := Lookup(rf.Property)
	if c == nil {
		fmt.Println("unknown property", rf.Property)
		return ExitInconclusive
	}
	acc := NewAcc(c.ID)
	findings, _ := LoadFindings(filepath.Join(Root(), "KNOWN_FINDINGS.txt"))
	acc.SetFindings(findings)
	acc.Only = rf.Violation.Case
	acc.Verbose = true
	fmt.Printf("replaying %s job=%+v case=%d\n", rf.Property, rf.Violation.Job, rf.Violation.Case)
	acc.StartJob(rf.Violation.JobIdx, rf.Violation.Job)
	c.Exec(rf.Violation.Job, acc)
	if acc.NViol > 0 {
		fmt.Printf("VIOLATION property=%s replay=%s kind=%s (reproduced)\n", c.ID, path, rf.Violation.Kind)
		return ExitViolation
	}
	fmt.Println("not reproduced on this tree")
	return ExitOK
}
