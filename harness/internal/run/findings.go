package run

import (
	"bufio"
	"os"
	"strings"
)

// Finding is one `finding:` line of KNOWN_FINDINGS.txt. Only these suppress a
// violation (and only the one with exactly this signature); `fixed:` lines are
// documentation and suppress nothing.
type Finding struct {
	Property string
	Sig      string
	Text     string
}

func LoadFindings(path string) ([]Finding, error) {
	f, err := os.Open(path)
	if err != nil {
		if os.IsNotExist(err) {
			return nil, nil
		}
		return nil, err
	}
	defer f.Close()
	var out []Finding
	sc := bufio.NewScanner(f)
	sc.Buffer(make([]byte, 1<<20), 1<<20)
	for sc.Scan() {
		line := strings.TrimSpace(sc.Text())
		if !strings.HasPrefix(line, "finding:") {
			continue
		}
		rest := strings.TrimSpace(strings.TrimPrefix(line, "finding:"))
		var fd Finding
		fields := strings.Fields(rest)
		n := 0
		for _, fl := range fields {
			if strings.HasPrefix(fl, "property=") {
				fd.Property = strings.TrimPrefix(fl, "property=")
				n++
			} else if strings.HasPrefix(fl, "sig=") {
				fd.Sig = strings.TrimPrefix(fl, "sig=")
				n++
			} else {
				break
			}
		}
		fd.Text = strings.Join(fields[n:], " ")
		if fd.Property != "" && fd.Sig != "" {
			out = append(out, fd)
		}
	}
	return out, sc.Err()
}
