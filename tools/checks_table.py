HOOK_COMMITS = []
NOT_APPLICABLE = {}
NOTES = ("Runtime monitoring: every check builds the real library from /repo's working tree, drives it with seeded generated workloads in "
         "worker child processes and lets monitors (probe parsers, reference models, history checkers, the race detector) judge the executions. "
         "Exit 0 = held on what was observed, 1 = VIOLATION (replay file written), 2 = INCONCLUSIVE (never folded into the others). "
         "VERIF_SEED selects the case lists. See DESIGN.md.")
ENGINE_TEXT = {
    "model-history": "operation histories replayed against the real data structures and a plain Go model; every earlier value re-read after each step",
}
ENGINE_TEXT["gram-diff"] = "generated grammars built into real parsley parsers wrapped in transparent probe parsers; results judged against an independent reference semantics / online invariants"
CHECKS = {
 "C01": dict(engine="gram-diff", technique="runtime monitoring: probe parsers around memoized nonterminals + differential oracle against a reference least-fixpoint semantics and a structural tree validator",
   text="Results returned by the real parsers (ends, trees, each tree validated structurally) are compared with an independent least-fixpoint reference on the seed corpus, seeded random stratified grammars, mutual-left-recursion-biased grammars and every grammar of a small scope. Held on the cases explored only.",
   note="trusts harness/internal/refsem as the meaning of a grammar; unstratified grammars and budget-exceeding cases are not judged", design_ref="DESIGN.md section 4, C01"),
 "C02": dict(engine="gram-diff", technique="runtime monitoring: online invariant asserted at a probe below every Memoize (active executions per (parser, position) <= remaining+2) + parent-process classification of fatal exits",
   text="The activation bound is asserted online on every execution of every memoized parser over generated grammars incl. cyclic, nullable, hidden-left-recursive and unstratified ones; termination is claimed as 'returned within the logical budget'. The evidence reports the deepest activation per remaining length.",
   note="termination is a bounded-progress restatement; budget hits are inconclusive", design_ref="DESIGN.md section 4, C02"),
 "C15": dict(engine="model-history", technique="runtime monitoring: model-based history checker re-reading every earlier value after each operation (random + small-scope exhaustive histories)",
   text="Every value ever produced in a history is re-read after every further operation and compared with a plain Go model; random histories plus every operation sequence of a small scope (domain {0,1,2}, depth 3/4). Holds on the histories explored, not beyond.",
   note="trusts the Go map/slice model; small-scope exhaustive only up to depth 3 (quick) / 4 (thorough)", design_ref="DESIGN.md section 4, C15"),
}
