HOOK_COMMITS = []
NOT_APPLICABLE = {}
NOTES = ("Runtime monitoring: every check builds the real library from /repo's working tree, drives it with seeded generated workloads in "
         "worker child processes and lets monitors (probe parsers, reference models, history checkers, the race detector) judge the executions. "
         "Exit 0 = held on what was observed, 1 = VIOLATION (replay file written), 2 = INCONCLUSIVE (never folded into the others). "
         "VERIF_SEED selects the case lists. See DESIGN.md.")
ENGINE_TEXT = {
    "model-history": "operation histories replayed against the real data structures and a plain Go model; every earlier value re-read after each step",
}
CHECKS = {
 "C15": dict(engine="model-history", technique="runtime monitoring: model-based history checker re-reading every earlier value after each operation (random + small-scope exhaustive histories)",
   text="Every value ever produced in a history is re-read after every further operation and compared with a plain Go model; random histories plus every operation sequence of a small scope (domain {0,1,2}, depth 3/4). Holds on the histories explored, not beyond.",
   note="trusts the Go map/slice model; small-scope exhaustive only up to depth 3 (quick) / 4 (thorough)", design_ref="DESIGN.md section 4, C15"),
}
