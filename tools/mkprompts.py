#!/usr/bin/env python3
"""mkprompts.py <round> <angle-file> [ids...] : writes /tmp/agent_prompt<round>_<Cxx>.txt for the fault seeders and creates
the worktrees /tmp/wt<round>_<Cxx>. The prompt holds the property's text, the titles of earlier seeds (so that a new seed
differs) and the round's angle - nothing else from /verif."""
import json,glob,os,re,subprocess,sys
rnd=sys.argv[1]; angle=open(sys.argv[2]).read().strip(); ids=sys.argv[3:]
root=os.path.dirname(os.path.dirname(os.path.abspath(__file__)))
props={}
for l in open(os.path.join(root,'properties.jsonl')):
    p=json.loads(l); props[p['id']]=p
prev={}
for d in sorted(glob.glob(os.path.join(root,'seeded','*'))):
    m=json.load(open(d+'/meta.json')); pid=m['property']
    name=os.path.basename(d); title=re.sub(r'^S\d*-C\d\d-','',name).replace('-',' ')
    files=sorted(set(re.findall(r'^\+\+\+ b/(\S+)',open(d+'/patch.diff').read(),re.M)))
    prev.setdefault(pid,[]).append('%s (%s)'%(title,', '.join(files)))
head=subprocess.check_output(['git','-C','/repo','rev-parse','--short','HEAD']).decode().strip()
for pid in (ids or sorted(props)):
    p=props[pid]; wt='/tmp/wt%s_%s'%(rnd,pid); out='/tmp/seed%s_%s'%(rnd,pid)
    q=p.get('quantifier') or {}
    body='Property %s: %s\n\nStatement: %s\n\nQuantifier: %s\n\nWhy the existing tests cannot settle it: %s'%(
        pid,p['title'],p.get('statement',''),q.get('text',''),p.get('why_tests_cant',''))
    txt=f'''You are helping to evaluate a verification framework by acting as a "fault seeder". You work ONLY inside the scratch git worktree {wt} (a checkout of the Go library github.com/opsidian/parsley - a parser combinator library with memoization and curtailment for left-recursive grammars, a text reader, terminal parsers and AST evaluation) and the output directory {out}. Do not read or touch /verif, /repo or any other directory; do not commit anything.

Every shell command needs this environment first (the sandbox has no network):
  export GOFLAGS=-mod=mod GOPROXY=off GOSUMDB=off GOTOOLCHAIN=local
The repository's own test suite is:  cd {wt} && go test -vet=off -count=1 ./...     (it passes on the unchanged tree; it uses ginkgo/gomega)

Here is a semantic property of the library that is supposed to hold:

----------------------------------------------------------------------
{body}
----------------------------------------------------------------------

Your task: make ONE realistic change to the library's non-test source (the kind of mistake or "optimisation" a maintainer could plausibly commit: an off-by-one, a dropped copy, a reordered pair of statements, a cache key that forgets something, a fast path that skips a check, two sites that each look fine alone ...) such that
  1. the library still compiles (go build ./...) and the ENTIRE existing test suite still passes, unedited;
  2. the property above is broken by the change;
  3. the breakage needs something SPECIFIC in order to manifest - a particular grammar shape, an unusual input, a multi-step sequence of operations, a particular interleaving of goroutines, two cooperating code sites - NOT something ordinary use would expose at once. Prefer subtle over blatant. Do not add build tags, environment switches, random behaviour or code that detects a test harness.
Then write a demonstration: a small Go test file or program (it may live in the worktree, e.g. {wt}/seeded_demo_test.go in package parsley_test or a main package under {wt}/cmd_demo/) that uses only the library's public API, FAILS (or prints a clear "PROPERTY VIOLATED" line and exits non-zero) with your change applied and PASSES on the unchanged tree. Verify both directions yourself (use `git stash` / `git stash pop`, or `git diff > p.diff; git checkout -- .; ...; git apply p.diff`).

Deliver, in {out}/ :
  - patch.diff      : `git diff` of the library change only (no demo files inside), applicable with `git apply` at the worktree's HEAD
  - the demonstration file(s), plus demo.sh : the exact command(s) to run the demonstration from the root of a checkout (the demo file will be copied to the same relative path)
  - notes.md        : which rule of the property the change breaks, what it needs in order to manifest (grammar/input/sequence/interleaving), and the output you observed with and without the change, and confirmation that the full test suite passes with the change.
Leave the worktree with your change applied. Keep the change small (a few lines). If your first idea turns out to break the existing tests or not to break the property, try another one; report honestly if you could not find one.


IMPORTANT: earlier seeders already produced these changes for the same property:
'''+''.join('  - %s\n'%t for t in prev.get(pid,[]))+'''Produce something MATERIALLY DIFFERENT from all of them (different function; if possible a different file).

'''+angle+'\n'
    open('/tmp/agent_prompt%s_%s.txt'%(rnd,pid),'w').write(txt)
    os.makedirs(out,exist_ok=True)
    if not os.path.exists(wt):
        subprocess.check_call(['git','-C','/repo','worktree','add','--detach','-q',wt,'HEAD'])
    print(pid,wt,head,len(prev.get(pid,[])),'earlier seeds')
