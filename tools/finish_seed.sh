#!/bin/bash
# usage: tools/finish_seed.sh <round> <Cxx> <slug> <needs> <caught_by>  -- store /tmp/seed<round>_<Cxx> as seeded/S<round>-<Cxx>-<slug>, remove its worktree
set -e
cd "$(dirname "$0")/.."
r=$1; id=$2; slug=$3
rm -rf /tmp/seed_$id; cp -r /tmp/seed${r}_$id /tmp/seed_$id
python3 tools/store_seed.py $id "S$r-$id-$slug" "$4" "$5"
rm -rf /tmp/seed_$id /tmp/seed${r}_$id
git -C /repo worktree remove --force /tmp/wt${r}_$id 2>/dev/null || true
git -C /repo worktree prune
