#!/bin/bash
# usage: tools/coverage.sh [tier] [ids...]  -- measurement, not a registered check.
# Builds the harness with statement-coverage instrumentation of the library packages (go build -cover
# -coverpkg=github.com/opsidian/parsley/...), runs the given checks (default: all, quick) with their output
# redirected to a scratch directory, and prints (a) per-package statement coverage of the LIBRARY under the
# monitors' workload and (b) every library block the workload never executed (work/coverage/uncovered.txt).
# The point: a change inside a statement no workload reaches cannot be observed by any monitor; this list is the
# honest boundary of "held on what was observed".
set -u
cd "$(dirname "$0")/.."
export GOFLAGS=-mod=mod GOPROXY=off GOSUMDB=off GOTOOLCHAIN=local
tier=${1:-quick}; shift
ids=${@:-C01 C02 C03 C04 C05 C06 C07 C08 C09 C10 C11 C12 C13 C14 C15 C16 C17}
out=work/coverage; rm -rf "$out"; mkdir -p "$out/data" "$out/scratch"
# (the main package has to be among the instrumented ones, or the binary never writes its counters)
pk=$(cd harness && go list -deps ./cmd/vcheck | grep opsidian/parsley | tr '\n' ',' | sed 's/,$//')
(cd harness && go build -tags verif -cover -coverpkg=verifharness/cmd/vcheck,$pk -o bin/vcheck-cover ./cmd/vcheck) || { echo BUILD FAILED; exit 3; }
for id in $ids; do
  mkdir -p "$out/data/$id"
  GOCOVERDIR="$PWD/$out/data/$id" VERIF_ROOT="$PWD" VERIF_OUT="$PWD/$out/scratch" harness/bin/vcheck-cover $id $tier > "$out/$id.log" 2>&1
  echo "$id exit=$? $(ls $out/data/$id | wc -l) coverage files"
done
dirs=$(ls -d $out/data/* | tr '\n' ',' | sed 's/,$//')
(cd harness && go tool covdata percent -i=$(echo $dirs | sed "s#work/#../work/#g")) | tee "$out/percent.txt"
(cd harness && go tool covdata textfmt -i=$(echo $dirs | sed "s#work/#../work/#g") -o ../$out/all.txt)
# per check: which blocks only this check reaches is not needed; list blocks nobody reached
awk 'NR>1 && $3==0 {print $1}' "$out/all.txt" | grep -v "^verifharness\|_test.go\|/parsleyfakes/\|/test/" | sort -t: -k1,1 -k2,2n > "$out/uncovered.txt"
echo "uncovered library blocks: $(wc -l < $out/uncovered.txt) (see $out/uncovered.txt)"
# the committed record: percentages and the uncovered blocks with their source line
mkdir -p coverage
{ echo "# library statement coverage under the $tier tier of: $ids"; echo "# repository head: $(git -C /repo rev-parse --short HEAD), VERIF_SEED=${VERIF_SEED:-1}"; grep -v verifharness "$out/percent.txt"; } > coverage/percent-$tier.txt
while IFS= read -r b; do
  f=${b%%:*}; l=${b#*:}; l=${l%%.*}
  src=$(sed -n "${l}p" "/repo/${f#github.com/opsidian/parsley/}" | sed 's/^[ \t]*//' | cut -c1-110)
  echo "$b  |  $src"
done < "$out/uncovered.txt" > coverage/uncovered-$tier.txt
rm -rf "$out/scratch" harness/bin/vcheck-cover
