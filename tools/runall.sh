#!/bin/bash
# usage: tools/runall.sh [quick|thorough] [ids...]   -- convenience: runs checks one after another, prints exit code and time
cd "$(dirname "$0")/.."
tier=${1:-quick}; shift
ids=${@:-C01 C02 C03 C04 C05 C06 C07 C08 C09 C10 C11 C12 C13 C14 C15 C16 C17}
for id in $ids; do
  s=$(date +%s)
  out=$(./run.sh $id $tier 2>&1); code=$?
  e=$(date +%s)
  echo "$id exit=$code $((e-s))s $(echo "$out" | grep -c '^VIOLATION') violations $(echo "$out" | grep -c '^INCONCLUSIVE') inconclusive $(echo "$out" | grep -c '^KNOWN-FINDING') known | $(echo "$out" | grep "^$id tier" | sed 's/.*evaluations/evaluations/')"
  if [ $code -ne 0 ]; then echo "$out" | grep '^VIOLATION\|^INCONCLUSIVE' | head -5; fi
done
