#!/bin/bash
# usage: confirm_seed.sh <seed-dir>   (contains patch.diff, demo.sh, demo files)
# Confirms in scratch copies of /repo: (A) unchanged tree + demo: the demo passes; (B) with the patch the library builds and
# the repository's own suite passes (demo files not yet present), then the demo is added and fails.
set -u
src=$(realpath "$1")
export GOFLAGS=-mod=mod GOPROXY=off GOSUMDB=off GOTOOLCHAIN=local
scratch=$(mktemp -d /tmp/confirm.XXXXXX); trap 'rm -rf "$scratch"' EXIT
copydemo() { (cd "$src" && tar -c --exclude=patch.diff --exclude=notes.md --exclude=meta.json --exclude='*.txt' --exclude='*.log' .) | tar -x -C "$1"; }
mkdir "$scratch/a" "$scratch/b"
git -C /repo archive HEAD | tar -x -C "$scratch/a"; git -C /repo archive HEAD | tar -x -C "$scratch/b"
copydemo "$scratch/a"
(cd "$scratch/a" && bash ./demo.sh > "$scratch/demo_without.txt" 2>&1); without=$?
cd "$scratch/b"
if ! patch -p1 -s < "$src/patch.diff"; then echo "$(basename $src): PATCH DOES NOT APPLY"; exit 1; fi
go build ./... 2> "$scratch/build.txt"; build=$?
suite=$(go test -vet=off -count=1 ./... 2>&1 | grep -c "^FAIL\|^--- FAIL\|^panic:")
copydemo "$scratch/b"
bash ./demo.sh > "$scratch/demo_with.txt" 2>&1; with=$?
echo "$(basename $src): demo_without_patch_exit=$without build=$build suite_failures=$suite demo_with_patch_exit=$with"
[ -n "${SHOW:-}" ] && { tail -${SHOW} "$scratch/demo_with.txt"; }
exit 0
