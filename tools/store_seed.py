#!/usr/bin/env python3
"""store_seed.py <property> <name> <needs> <caught_by> : copies /tmp/seed_<property> to seeded/<name>/ with meta.json"""
import json,os,shutil,subprocess,sys
HEAD=subprocess.check_output(['git','-C','/repo','rev-parse','--short','HEAD']).decode().strip()
pid,name,needs,caught=sys.argv[1:5]
src='/tmp/seed_'+pid
dst=os.path.join(os.path.dirname(os.path.dirname(os.path.abspath(__file__))),'seeded',name)
if os.path.exists(dst): shutil.rmtree(dst)
os.makedirs(dst)
for f in os.listdir(src):
    if f.endswith('.txt') or f.endswith('.log'): continue
    p=os.path.join(src,f)
    if os.path.isdir(p): shutil.copytree(p,os.path.join(dst,f))
    else: shutil.copy(p,dst)
meta={'property':pid,'written_by':'independent sub-agent given only the property text and a scratch worktree of /repo at '+HEAD,
      'needs_to_manifest':needs,
      'confirmed':'tools/confirm_seed.sh: demo passes on the unchanged tree; with patch.diff applied the library builds, the repository suite passes unedited (0 failures) and the demo fails',
      'ran':'mutants/try.sh seeded/%s/patch.diff %s (scratch copy of /repo under /tmp, removed afterwards)'%(name,pid),
      'caught_by':caught}
json.dump(meta,open(os.path.join(dst,'meta.json'),'w'),indent=1)
print('stored',dst)
