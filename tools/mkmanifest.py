#!/usr/bin/env python3
"""Regenerates /verif/MANIFEST.json from the table below (kept next to the checks so it stays current)."""
import json, os, sys
ROOT = os.path.dirname(os.path.dirname(os.path.abspath(__file__)))
props = [json.loads(l) for l in open(os.path.join(ROOT, "properties.jsonl"))]
ids = [p["id"] for p in props]

# id -> (engine, technique, level text, level note, design ref)
CHECKS = {}
exec(open(os.path.join(ROOT, "tools", "checks_table.py")).read())

checks = []
for pid in ids:
    if pid not in CHECKS:
        continue
    c = CHECKS[pid]
    checks.append({
        "property_id": pid,
        "quick_cmd": "./run.sh %s quick" % pid,
        "thorough_cmd": "./run.sh %s thorough" % pid,
        "evidence_file": "evidence/%s.json" % pid,
        "replay_cmd_template": "./run.sh replay {path}",
        "engine": c["engine"],
        "technique": c["technique"],
        "level_claimed": {"category": "exploration", "text": c["text"], "design_ref": c["design_ref"]},
        "level_note": c["note"],
    })
na = [{"property_id": pid, "reason": NOT_APPLICABLE.get(pid, "check not built yet in this round (planned in DESIGN.md section 4)")} for pid in ids if pid not in CHECKS]
engines = {}
for pid, c in CHECKS.items():
    engines.setdefault(c["engine"], []).append(pid)
manifest = {
    "version": 1,
    "setup_cmd": "./run.sh setup",
    "hooks": {
        "guard": "verif",
        "enable": "go build -tags verif (run.sh always builds the harness and /repo with it)",
        "baseline_off_cmd": "cd /repo && GOFLAGS=-mod=mod GOPROXY=off GOSUMDB=off GOTOOLCHAIN=local go test -vet=off -count=1 ./...",
        "source_commits": HOOK_COMMITS,
        "add_only": True,
    },
    "engines": [{"name": k, "path": "harness/internal/checks", "serves_properties": sorted(v), "kind_free_text": ENGINE_TEXT.get(k, "")} for k, v in sorted(engines.items())],
    "checks": checks,
    "notes": NOTES,
    "not_applicable": na,
}
json.dump(manifest, open(os.path.join(ROOT, "MANIFEST.json"), "w"), indent=1)
print("wrote MANIFEST.json with", len(checks), "checks;", len(na), "not claimed")
