#!/bin/bash
# usage: tools/process_round.sh <round-number> <ids...>   -- confirm and try the seeds in /tmp/seed<round>_<id>
cd "$(dirname "$0")/.."
r=$1; shift
for id in "$@"; do
  ( d=/tmp/seed${r}_$id
    [ -f $d/patch.diff ] || { echo "$id: no patch.diff"; exit; }
    rm -rf $d/search_tools $d/work
    r1=$(tools/confirm_seed.sh $d); r2=$(SKIP_SUITE=1 mutants/try.sh $d/patch.diff $id | tail -1); echo "$r1 || $r2" ) &
done
wait
